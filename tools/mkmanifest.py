#!/venv/bin/python
"""Regenerates /verif/MANIFEST.json from the table below (python3 tools/mkmanifest.py)."""
import json
import os

HERE = os.path.dirname(os.path.dirname(os.path.abspath(__file__)))

# id -> (technique, level text, level note)
CHECKS = {
    "C18": ("exhaustive digit-pattern grid (7^7) + Hypothesis-generated components, decoded by an independent layout decoder",
            "Generated-input search: the whole 7^7 digit grid is enumerated in both tiers (exhaustive for that sub-space), "
            "random components up to 10^12, negative leading components, quarters/weeks, through all six dialect contexts; "
            "the oracle is a decoder of the documented 'Y-M-D h:m:s.u' layout. Exploration, not proof, outside the grid.",
            "Trusted: the decoder's reading of the layout and the template table (vendor documentation)."),
    "C06": ("exhaustive (parent, child, position) operator table x 6 contexts + Hypothesis random trees; reference Pratt parser over the reference lexer, SQLite evaluation grid",
            "Generated-input search with two oracles: rendered text is lexed and parsed under the standard ladder and compared, in a normal form "
            "hiding only the allowed re-associations, with the tree that was built; on the SQLite context the text is also evaluated against a fully "
            "parenthesised transcription over a grid of leaf assignments. The triple table is enumerated completely; deeper trees are sampled.",
            "Trusted: the precedence ladder in pbt/exprparse.py (self-tested against SQLite on every case) and the dialect lexers."),
    "C01": ("Hypothesis-generated histories (trees of builder calls, data-driven state machine) checked against a linear-history twin after every step",
            "Histories branch constantly (any live object may be the receiver, repeated calls on non-empty clauses are favoured); after each step every "
            "live object must render like an object rebuilt from its own chain of calls on fresh objects; all six contexts inline and parameterised at the "
            "end of each history. Builder-decorated methods are discovered from the live package and uncovered ones are listed in the evidence.",
            "Trusted: the interpreter pbt/prog.py and the argument menus in pbt/hist.py; sampling, not exhaustive."),
    "C15": ("Hypothesis-generated object graphs x {copy, deepcopy, pickle 2-5} x suffix of builder calls on either side; snapshot equality and linear-twin oracle",
            "Every family of object (builders of six classes, set operations, DDL, tables with schema chains and temporal clauses, Schema, Database, "
            "AliasedQuery, NOT wrappers with delegating calls, terms) is duplicated by each mechanism; the duplicate must be of the same type and render "
            "identically in all six contexts inline and parameterised, and builder calls on one side must leave the other side and both originals unchanged; "
            "deepcopy/pickle graphs must share no mutable container.",
            "Trusted: pbt/prog.py, pbt/hist.py menus; CPython 3.12 copy/pickle protocol."),
    "C02": ("Hypothesis-generated render histories with structural-snapshot oracle, cross-process re-rendering under different PYTHONHASHSEED, thread stress, re-entrancy probe",
            "Mutation is detected directly by a __dict__ walk before/after each render operation; repeatability by comparing the k-th result with the first; "
            "process independence by child interpreters with hash seeds 0..3 (0..7 thorough); schedules by 8-thread stress and by a harness-owned term that "
            "re-enters a render of the enclosing object from inside get_sql at seven clause positions x six classes.",
            "Thread interleavings are sampled, not enumerated (stated limit of the technique); re-entrancy is owned at term granularity only."),
    "C17": ("exhaustive cross product of 144 table variants (all pairs, all triples via the equality matrix) + schema/aliased-query/builder variants; Hypothesis expressions vs reference field collection",
            "The equality/hash laws are checked on every ordered pair of the enumerated variants (finite space, enumerated completely in both tiers) "
            "and set/dict membership is compared with linear search; fields_()/tables_ of generated expressions over three tables with colliding column "
            "names are compared with a (table, column) collection computed independently from the program data.",
            "Trusted: the documented table identity (name, schema path, alias); the reference walker over program data."),
    "C09": ("exhaustive enumeration of (limit, offset, setter plan, ORDER BY, position, class, inline/parameterised); per-dialect tail grammar over the reference lexer; SQLite execution",
            "The whole product space (about 3900 cases) is enumerated in both tiers: the paginated statement must equal the unpaginated one plus an inserted token "
            "run that matches the dialect's row-limiting grammar with the limit/offset values (or their placeholders' list entries) in the right slots; "
            "SQLite-class statements are executed and must return rows[m:m+n].",
            "Trusted: the row-limiting grammars written from vendor documentation; the reference lexers."),
    "C05": ("Hypothesis-generated values (adversarial + full-Unicode strings, numerics, temporal, UUID, enum, nested JSON) x 21 positions x 6 classes; metamorphic marker/value rendering decoded by the reference lexer; SQLite evaluates the literal",
            "The statement rendered with the value and with a benign marker must be the same token stream except for exactly one literal (group) at the marker, "
            "whose decoded value equals the original under the dialect's escape rules; any early end of the literal, comment opener or placeholder look-alike "
            "changes the surrounding token stream and is reported. SQLite additionally evaluates the literal text.",
            "Trusted: the dialect lexers (self-tested for round trip and against SQLite at the start of every shard)."),
    "C04": ("Hypothesis-generated statements of all kinds/classes with unique marker values; token alignment of inline vs parameterised rendering through the reference lexer; SQLite executes both forms",
            "Every placeholder must have the dialect's style and numbering, consume exactly one literal group of the inline rendering that decodes to the listed value, "
            "all other tokens must be identical, listed values must be plain data, non-exempt marker values must be listed and gone from the SQL, exempt ones inline; "
            "SQLite-class statements are executed in both forms on a small database and must agree.",
            "Trusted: reference lexers and the value decoder shared with C05; the structured statement generator pbt/gen.py."),
    "C12": ("exhaustive matrix: Term subclasses discovered in the live package x defining/operand positions x six classes, plus GROUP BY / ORDER BY by defined and undefined alias; token-insertion oracle over the reference lexer",
            "Each cell renders the statement with and without the alias: in a defining position the aliased form must be the plain form plus [AS] and one correctly "
            "quoted alias token inserted exactly at the end of the term; in an operand position the two forms must be identical; a GROUP BY / ORDER BY item is "
            "either an alias the select list defines or the alias-free expression (never an alias under MSSQL/Oracle GROUP BY). Classes without a recipe are "
            "built from their signature; unbuildable ones are listed as uncovered.",
            "Trusted: the position templates in pbt/props/c12.py and the legality table (Star/Index/Rollup carry no alias; period criteria are not select items)."),
    "C16": ("explicit clause-slot templates x six classes x table pairs (enumerated) + Hypothesis expressions and statements; build-with-NEW equality and an independent object-graph walk",
            "R = x.replace_table(OLD, NEW) is compared with the same program built with NEW from the start under all six contexts (terms with namespaces forced so a "
            "surviving reference cannot hide behind bare column names); a __dict__ walker that shares nothing with nodes_ looks for any table equal to OLD in R; the "
            "receiver must render as before; exceptions are violations. One template per clause slot makes the statement matrix exhaustive.",
            "Trusted: pbt/prog.py substitution of the table symbol; the walker's notion of 'reference' (Table instances reachable through __dict__, not through a field's subquery namespace)."),
    "C14": ("Hypothesis-generated join programs against an independent availability model; exhaustive enumeration of set-operation arities, CASE, conflict-handler call orders, RETURNING kinds and one-shot calls against an expected-exception table",
            "Both directions are checked: a JoinException must be raised at the join call iff the criterion (outside subquery operands) mentions a table that is not "
            "in FROM, joined, being joined, the update table or a declared CTE, over every source shape; the finite families (set-operation arity x select-list lengths, "
            "CASE with 0-2 WHENs, all conflict-handler call sequences up to length 4, RETURNING argument kinds x statement kinds, repeated one-shot calls) are enumerated "
            "completely against the documented exception types.",
            "Trusted: the availability model and the expected-exception table in pbt/props/c14.py (taken from the guards' messages and the error tests)."),
    "C10": ("Hypothesis-generated inner queries (aliased terms in every clause, nesting, set operations, pagination, values) x 11 embedding positions x 6 classes x inline/parameterised; contiguous-token-subsequence oracle over the reference lexer",
            "The stand-alone token stream of the inner query must occur in the outer statement as a contiguous run (placeholders compared by kind), bracketed exactly "
            "where the position requires, followed by an alias only at FROM/JOIN/select-list positions; INSERT..SELECT must be the INSERT head plus the SELECT unchanged.",
            "Trusted: reference lexers; the position templates in pbt/props/c10.py."),
    "C07": ("emission-site templates x Hypothesis-generated adversarial names x six classes; renaming-homomorphism oracle on token streams through the reference lexer",
            "Each template is built with plain unique names and with adversarial names: every plain name must come out as one identifier token quoted with the "
            "context's quote character, and the adversarial token stream must be the plain one with each identifier token replaced by an identifier token "
            "decoding to the adversarial name - one name, one token, same spelling at definition and reference, structure unchanged.",
            "Trusted: identifier rules of the reference lexers; the template list (one per emission site) in pbt/props/c07.py. CTE templates stop at the known bare-name finding."),
    "C11": ("Hypothesis-generated statements with a uniquely named marker field in every clause over 1-3 sources of every shape; independent qualification model; SQLite ambiguity check",
            "For every marker field the two tokens before it in the rendered statement are compared with an independent model (qualified iff the source is aliased or the "
            "statement is multi-source, by alias if any, bare in INSERT columns / SET target / ON CONFLICT target / USING). SQLite-class SELECTs are prepared against a "
            "schema in which all tables share the column names, so a missing qualifier is reported by the engine as ambiguous and a wrong one as unknown.",
            "Trusted: the qualification model in pbt/props/c11.py; positions where SQL itself decides (upsert values) accept either form with the right name."),
    "C13": ("Hypothesis-generated statement programs with random linear extensions of the documented call partial order and random sub-lists; snapshot equality across orders, clause-order tables over the reference lexer, SQLite parser",
            "Every admissible order of the same calls must give the same rendering (the non-commuting pair is isolated by bubbling one order into the other); every "
            "rendering has balanced brackets and its depth-0 clause keywords follow the class's clause-order table at most once each; a sub-list of the calls renders "
            "the empty string, a complete statement or raises a library exception; SQLite-class statements incl. CREATE/DROP are prepared by the engine and may not "
            "fail with a parse-class error.",
            "Trusted: the partial order of non-commuting calls and the clause-order tables in pbt/props/c13.py (DESIGN.md Appendix B)."),
    "C08": ("Hypothesis-generated neutral statements rendered under all ordered class pairs and with generic-built inner queries (normalised token-stream equality); enumerated sensitive-term x nesting-position x class matrix against a convention table",
            "Neutral programs must give identical token streams under any two classes once identifier quotes, placeholder style, set-operand brackets and the GROUP BY alias "
            "policy are normalised, and must not change when nested queries are built by the generic class; Parameter(idx), parameterised values, booleans, arrays, "
            "intervals, tz-aware times and quoted names are placed at 9 nesting positions under each class (inner query built by the same or the generic class, inline and "
            "parameterised) and the tokens between marker brackets must have the form the convention table prescribes for the outer class.",
            "Trusted: the convention table (DESIGN.md Appendix C) and the normalisation rewrites in pbt/props/c08.py."),
    "C03": ("Hypothesis-generated semantic statement descriptions -> builder program (SQLLiteQuery) and independent fully bracketed/qualified reference text; differential execution on generated SQLite databases (+ EXPLAIN bytecode comparison)",
            "From one semantic description two texts are derived: the library's rendering of the builder calls and a reference transcription written by an independent "
            "emitter (every operator bracketed, every column qualified, GROUP BY/ORDER BY as expressions/positions). SQLite must accept the library's text, and on 3 generated "
            "databases per case both must return the same rows in the same order (total ORDER BY whenever order matters) or leave the same table contents.",
            "Trusted: SQLite 3.40 and the reference emitter R_* in pbt/props/c03.py (its text must itself be accepted by the engine, else the run aborts as a harness error)."),
}

NOT_BUILT = {}


def main():
    props = [json.loads(l) for l in open(os.path.join(HERE, "properties.jsonl"))]
    checks = []
    na = []
    for p in props:
        pid = p["id"]
        if pid in CHECKS:
            tech, text, note = CHECKS[pid]
            checks.append({
                "property_id": pid,
                "quick_cmd": "./check %s quick" % pid,
                "thorough_cmd": "./check %s thorough" % pid,
                "evidence_file": "evidence/%s.json" % pid,
                "replay_cmd_template": "./check %s replay --replay {path}" % pid,
                "engine": "pbt",
                "level_claimed": {"category": "exploration", "text": text, "design_ref": "DESIGN.md §3 " + pid},
                "level_note": note,
                "technique": tech,
            })
        else:
            na.append({"property_id": pid, "reason": NOT_BUILT.get(pid, "check not built yet in this session (planned, see DESIGN.md §3 %s)" % pid)})
    man = {
        "version": 1,
        "setup_cmd": "/venv/bin/python -c 'import hypothesis' 2>/dev/null || /venv/bin/pip install -q --no-index --find-links /opt/veriftools/wheels hypothesis",
        "hooks": {
            "guard": "PYPIKA_TORTOISE_VERIF",
            "enable": "no hooks: every check observes the library through its public API and __dict__ walks; nothing in /repo is guarded",
            "baseline_off_cmd": "cd /repo && /venv/bin/python -m pytest -q -p no:cacheprovider",
            "source_commits": [],
            "add_only": True,
        },
        "engines": [{"name": "pbt", "path": "pbt/", "serves_properties": sorted(CHECKS),
                     "kind_free_text": "Hypothesis strategies / state machines + exhaustive enumeration, explicit oracles (reference lexers, parser, SQLite engine, linear twins)"}],
        "checks": checks,
        "not_applicable": na,
        "notes": "All checks: ./check <ID> quick|thorough; VERIF_SEED is the only entropy source; exit 2 = harness error. Known findings: KNOWN_FINDINGS.txt.",
    }
    with open(os.path.join(HERE, "MANIFEST.json"), "w") as f:
        json.dump(man, f, indent=1)
        f.write("\n")
    try:
        import jsonschema
        jsonschema.validate(man, json.load(open("/root/.vp/MANIFEST.schema.json")))
        print("MANIFEST.json valid;", len(checks), "checks")
    except ImportError:
        print("written (jsonschema not available)")


if __name__ == "__main__":
    main()
