#!/venv/bin/python
"""tools/seed3_verify.py <M> <k> <property> <summary> <needs>
Third round: area-wide changes. Re-verifies /tmp/seed3/<M>/m<k>.diff (tests green, demo fails with / passes without), runs EVERY quick check against it
(VERIF_REPO_DIR = the worktree with the change), stores seeded/R3-<M>-m<k>/."""
import json, os, re, shutil, subprocess, sys
from concurrent.futures import ThreadPoolExecutor
HERE = os.path.dirname(os.path.dirname(os.path.abspath(__file__)))
M, k, prop, summary, needs = sys.argv[1:6]
wt = "%s/%s" % (os.environ.get("SEED3_ROOT", "/tmp/seed3"), M)
diff, demo = os.path.join(wt, "m%s.diff" % k), os.path.join(wt, "demo_m%s.py" % k)
def sh(cmd, **kw):
    return subprocess.run(cmd, shell=True, capture_output=True, text=True, **kw)
assert sh("git -C %s status --porcelain -- pypika_tortoise" % wt).stdout.strip() == "", "worktree not clean"
r = sh("git -C %s apply %s" % (wt, diff)); assert r.returncode == 0, r.stderr
ids = ["C%02d" % i for i in range(1, 19)]
try:
    t = sh("cd %s && /venv/bin/python -m pytest -q -p no:cacheprovider 2>&1 | tail -1" % wt).stdout.strip()
    d1 = sh("cd %s && /venv/bin/python %s" % (wt, demo))
    def run(c):
        env = dict(os.environ, VERIF_REPO_DIR=wt, VERIF_JOBS="4", VERIF_EVIDENCE_DIR="/tmp/seed3/evidence")
        out = subprocess.run(["./check", c, "quick"], cwd=HERE, env=env, capture_output=True, text=True)
        sigs = re.findall(r"signature: (\S+)", out.stdout)
        return {"check": c, "tier": "quick", "exit": out.returncode, "signatures": sigs[:8],
                "result": "exit %d; %s" % (out.returncode, ("VIOLATION " + ", ".join(sigs[:3]) + (" (+%d)" % (len(sigs) - 3) if len(sigs) > 3 else "")) if sigs else "no violation")}
    with ThreadPoolExecutor(4) as ex:
        results = list(ex.map(run, ids))
finally:
    sh("git -C %s checkout -- pypika_tortoise" % wt)
    sh("git -C %s checkout -- evidence" % HERE)
    sh("find %s/replays -name 'viol-*.json' -delete" % HERE)
d0 = sh("cd %s && /venv/bin/python %s" % (wt, demo))
caught = [r["check"] for r in results if r["exit"] == 1]
print("tests:", t, "| demo with change exit", d1.returncode, "| without", d0.returncode, "| caught by:", ",".join(caught) or "NONE")
for r in results:
    if r["exit"] != 0:
        print("  ", r["check"], r["result"])
ok = "867 passed" in t and d1.returncode == 1 and d0.returncode == 0
if not ok:
    sys.exit("NOT CONFIRMED")
dst = os.path.join(HERE, "seeded", "%s-%s-m%s" % (os.environ.get("SEED3_TAG", "R3"), M, k))
os.makedirs(dst, exist_ok=True)
shutil.copy(diff, os.path.join(dst, "patch.diff")); shutil.copy(demo, os.path.join(dst, "demo.py"))
base = sh("git -C %s rev-parse --short HEAD" % wt).stdout.strip()
meta = {"property": prop, "summary": summary, "needs": needs, "base_commit": base, "round": 3 if os.environ.get("SEED3_TAG", "R3") == "R3" else 5,
        "verified": {"repo_tests_with_change": t, "demo_exit_with_change": d1.returncode, "demo_exit_without_change": d0.returncode,
                     "demo_output_with_change": (d1.stdout + d1.stderr).strip()[:600],
                     "how": "git apply in a scratch worktree of /repo HEAD; pytest; demo.py; VERIF_REPO_DIR=<worktree> ./check <ID> quick for all 18 checks"},
        "checks": [{"check": r["check"], "tier": "quick", "result": r["result"]} for r in results if r["exit"] != 0] or [{"check": "all 18", "tier": "quick", "result": "no violation"}]}
json.dump(meta, open(os.path.join(dst, "meta.json"), "w"), indent=1)
print("stored", dst)
