#!/venv/bin/python
"""tools/seed_verify.py <ID> <k> <summary> <needs> [--checks C04,C09] [--tier quick]
Re-verifies a seeded change produced by a sub-agent in /tmp/seed/<ID> (tests green with the change, demo fails with it and passes
without), runs the named checks against it (VERIF_REPO_DIR = the worktree with the change applied), and stores it under seeded/."""
import json, os, re, shutil, subprocess, sys
HERE = os.path.dirname(os.path.dirname(os.path.abspath(__file__)))
args = sys.argv[1:]
pid, k, summary, needs = args[0], args[1], args[2], args[3]
checks = [pid]
tier = "quick"
if "--checks" in args:
    checks = args[args.index("--checks") + 1].split(",")
if "--tier" in args:
    tier = args[args.index("--tier") + 1]
root = os.environ.get("SEED_ROOT", "/tmp/seed")
srck = os.environ.get("SEED_SRC_K", k)  # round two: worktree files m1/m2 are stored as m3/m4
wt = "%s/%s" % (root, pid)
diff = os.path.join(wt, "m%s.diff" % srck)
demo = os.path.join(wt, "demo_m%s.py" % srck)
def sh(cmd, **kw):
    return subprocess.run(cmd, shell=True, capture_output=True, text=True, **kw)
assert sh("git -C %s status --porcelain -- pypika_tortoise" % wt).stdout.strip() == "", "worktree not clean"
r = sh("git -C %s apply %s" % (wt, diff)); assert r.returncode == 0, r.stderr
try:
    t = sh("cd %s && /venv/bin/python -m pytest -q -p no:cacheprovider 2>&1 | tail -1" % wt).stdout.strip()
    d1 = sh("cd %s && /venv/bin/python %s" % (wt, demo))
    results = []
    for c in checks:
        env = dict(os.environ, VERIF_REPO_DIR=wt)
        out = subprocess.run(["./check", c, tier], cwd=HERE, env=env, capture_output=True, text=True)
        sigs = re.findall(r"signature: (\S+)", out.stdout)
        known = re.findall(r"KNOWN-FINDING", out.stdout)
        res = "exit %d; %s" % (out.returncode, ("VIOLATION " + ", ".join(sigs[:4]) + (" (+%d)" % (len(sigs) - 4) if len(sigs) > 4 else "")) if sigs else "no violation")
        results.append({"check": c, "tier": tier, "result": res, "exit": out.returncode, "signatures": sigs[:12]})
        print(c, tier, res)
finally:
    sh("git -C %s checkout -- pypika_tortoise" % wt)
    sh("git -C %s checkout -- evidence" % HERE)
    sh("find %s/replays -name 'viol-*.json' -delete" % HERE)
d0 = sh("cd %s && /venv/bin/python %s" % (wt, demo))
print("tests:", t, "| demo with change exit", d1.returncode, "| without", d0.returncode)
ok = "867 passed" in t and d1.returncode == 1 and d0.returncode == 0
if not ok:
    sys.exit("NOT CONFIRMED: tests=%r demo_with=%d demo_without=%d" % (t, d1.returncode, d0.returncode))
dst = os.path.join(HERE, "seeded", "%s-m%s" % (pid, k))
os.makedirs(dst, exist_ok=True)
shutil.copy(diff, os.path.join(dst, "patch.diff"))
shutil.copy(demo, os.path.join(dst, "demo.py"))
base = sh("git -C %s rev-parse --short HEAD" % wt).stdout.strip()
meta = {"property": pid, "summary": summary, "needs": needs, "base_commit": base, "round": 1 if root == "/tmp/seed" else 2,
        "verified": {"repo_tests_with_change": t, "demo_exit_with_change": d1.returncode, "demo_exit_without_change": d0.returncode,
                     "demo_output_with_change": (d1.stdout + d1.stderr).strip()[:600],
                     "how": "git apply in a scratch worktree of /repo HEAD; /venv/bin/python -m pytest -q -p no:cacheprovider; /venv/bin/python demo.py; VERIF_REPO_DIR=<worktree> ./check <ID> %s" % tier},
        "checks": [{"check": r["check"], "tier": r["tier"], "result": r["result"]} for r in results]}
json.dump(meta, open(os.path.join(dst, "meta.json"), "w"), indent=1)
print("stored", dst)
