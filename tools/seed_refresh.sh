#!/bin/bash
# re-verifies every stored seeded change against the current worktrees in /tmp/seed and refreshes meta.json
cd "$(dirname "$0")/.."
for d in seeded/*/; do
  n=$(basename $d); id=${n%-m*}; k=${n#*-m}
  summary=$(jq -r .summary $d/meta.json); needs=$(jq -r .needs $d/meta.json); checks=$(jq -r '[.checks[].check]|unique|join(",")' $d/meta.json)
  echo "== $n ($checks)"
  tools/seed_verify.py $id $k "$summary" "$needs" --checks $checks 2>&1 | tail -4
done
