#!/venv/bin/python
"""Regenerates the machine-made parts of DESIGN.md (§7 findings tables, §8 seeded-change table) between marker comments."""
import json, os, re, subprocess, glob
HERE = os.path.dirname(os.path.dirname(os.path.abspath(__file__)))
known = open(os.path.join(HERE, "KNOWN_FINDINGS.txt")).read().splitlines()
log = subprocess.run(["git", "-C", "/repo", "log", "--reverse", "--format=%h\t%s", "c837aee..HEAD"], capture_output=True, text=True).stdout.strip().splitlines()
by_commit = {}
opens = []
for l in known:
    if l.startswith("fixed:"):
        head, _, what = l[6:].partition("::")
        toks = head.split()
        kv = dict(t.split("=", 1) for t in toks if "=" in t)
        commit = [t for t in toks if "=" not in t][0]
        by_commit.setdefault(commit, []).append((kv["property"], kv.get("sig", ""), what.strip()))
    elif l.startswith("finding:"):
        head, _, what = l[8:].partition("::")
        kv = dict(t.split("=", 1) for t in head.split() if "=" in t)
        opens.append((kv["property"], kv["sig"], what.strip()))
out = []
out.append("### 7.1 Genuine defects repaired in /repo (one `fix:` commit each, oldest first)\n")
out.append("| commit | fix | found by (property: signatures with a regression replay) |")
out.append("|---|---|---|")
for l in log:
    h, msg = l.split("\t", 1)
    ents = by_commit.get(h, [])
    props = {}
    for p, sig, _ in ents:
        props.setdefault(p, []).append(sig)
    cell = "; ".join("%s: %s" % (p, ", ".join("`%s`" % s for s in sigs[:3]) + (" (+%d)" % (len(sigs) - 3) if len(sigs) > 3 else "")) for p, sigs in sorted(props.items()))
    out.append("| %s | %s | %s |" % (h, msg.replace("fix: ", "").replace("|", "\\|"), cell.replace("|", "\\|")))
out.append("")
out.append("### 7.2 Open findings (printed as KNOWN-FINDING, exit 0)\n")
out.append("| property | signature | what fails / why it is not repaired |")
out.append("|---|---|---|")
for p, sig, what in sorted(opens):
    out.append("| %s | `%s` | %s |" % (p, sig.replace("|", "\\|"), what.replace("|", "\\|")))
findings_md = "\n".join(out) + "\n"

rows = []
for meta in sorted(glob.glob(os.path.join(HERE, "seeded", "*", "meta.json"))):
    m = json.load(open(meta))
    rows.append("| %s | %s | %s | %s | %s |" % (os.path.basename(os.path.dirname(meta)), m["property"], m["summary"].replace("|", "\\|"), m["needs"].replace("|", "\\|"),
                                              "; ".join("%s %s: %s" % (c["check"], c["tier"], c["result"]) for c in m["checks"]).replace("|", "\\|")))
seeded_md = "| seeded change | breaks | change | needs, to manifest | result of the checks (signature reported) |\n|---|---|---|---|---|\n" + "\n".join(rows) + "\n"

p = os.path.join(HERE, "DESIGN.md")
s = open(p).read()
def put(s, tag, body):
    a, b = "<!-- %s-BEGIN -->" % tag, "<!-- %s-END -->" % tag
    i, j = s.index(a) + len(a), s.index(b)
    return s[:i] + "\n" + body + s[j:]
import importlib, sys
sys.path.insert(0, HERE)
rows_ab = ["| id | generated domain and counting rule (RULE) |", "|---|---|"]
for i in range(1, 19):
    m = importlib.import_module("pbt.props.c%02d" % i)
    rows_ab.append("| C%02d | %s |" % (i, m.RULE.replace("|", "\\|")))
s = put(s, "ASBUILT", "\n".join(rows_ab) + "\n")
s = put(s, "FINDINGS", findings_md)
s = put(s, "SEEDED", seeded_md)
open(p, "w").write(s)
print("DESIGN.md tables regenerated: %d fix commits, %d open findings, %d seeded changes" % (len(log), len(opens), len(rows)))
