#!/bin/bash
# tools/mt.sh <seeded-dir-name> <check> [tier] : run a check against a stored seeded change in its scratch worktree (round 1: /tmp/seed, round 2: /tmp/seed2)
cd "$(dirname "$0")/.."
n=$1; chk=$2; tier=${3:-quick}
id=${n%-m*}; k=${n#*-m}
root=/tmp/seed2  # round-1 worktrees are gone; m1/m2 patches apply in a fresh worktree: git -C /repo worktree add --detach /tmp/seed2/<ID> <base_commit>
wt=$root/$id
git -C $wt apply /verif/seeded/$n/patch.diff || exit 2
VERIF_REPO_DIR=$wt ./check $chk $tier | grep -E "signature|detail|$tier seed" | head -${MT_LINES:-6} | cut -c1-${MT_COLS:-300}
git -C $wt checkout -- pypika_tortoise
git checkout -- evidence 2>/dev/null; find replays -name 'viol-*' -delete
