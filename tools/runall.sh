#!/bin/bash
# tools/runall.sh [tier] [seed...]  : runs every registered check, prints one line per run; non-zero exits are flagged
cd "$(dirname "$0")/.."
TIER=${1:-quick}; shift
SEEDS=${@:-1}
for s in $SEEDS; do
  for id in C01 C02 C03 C04 C05 C06 C07 C08 C09 C10 C11 C12 C13 C14 C15 C16 C17 C18; do
    out=$(VERIF_SEED=$s ./check $id $TIER 2>&1); rc=$?
    line=$(echo "$out" | tail -1)
    [ $rc -ne 0 ] && echo "!! rc=$rc $id seed=$s" && echo "$out" | grep -A2 "^VIOLATION\|HARNESS" | head -12
    echo "$line"
  done
done
