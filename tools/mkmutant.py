#!/venv/bin/python
"""tools/mkmutant.py <name> <repo-relative-file> <old> <new>  -> mutants/<name>.patch (unified diff against /repo working tree)"""
import sys, difflib, os
name, rel, old, new = sys.argv[1:5]
src = open(os.path.join("/repo", rel)).read()
assert src.count(old) >= 1, "old text not found"
dst = src.replace(old, new, 1)
diff = difflib.unified_diff(src.splitlines(True), dst.splitlines(True), "a/" + rel, "b/" + rel)
out = os.path.join(os.path.dirname(os.path.dirname(os.path.abspath(__file__))), "mutants", name + ".patch")
open(out, "w").write("".join(diff))
print(out)
