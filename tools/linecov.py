#!/venv/bin/python
"""tools/linecov.py <ID>|report [tier]

Measuring tool (not a registered check): which lines of pypika_tortoise does a check execute?  Runs the check in this process
(VERIF_JOBS=1) under sys.monitoring and writes the executed (file, line) set to $LINECOV_DIR/<ID>.json (default /tmp/linecov).
`report` merges the files and lists, per source file, the executable lines that no check reached, grouped by function - the
places where a changed line could not be noticed by anything.  Evidence and replays of the measured run go to a scratch directory."""
import json, os, sys, types

HERE = os.path.dirname(os.path.dirname(os.path.abspath(__file__)))
OUT = os.environ.get("LINECOV_DIR", "/tmp/linecov")
REPO = os.environ.get("VERIF_REPO_DIR", "/repo")


def executable_lines(path):
    src = open(path).read()
    code = compile(src, path, "exec")
    lines = {}

    def walk(co, qual):
        for _, _, ln in co.co_lines():
            if ln is not None:
                lines.setdefault(ln, qual)
        for c in co.co_consts:
            if isinstance(c, types.CodeType):
                walk(c, (qual + "." if qual else "") + c.co_name)
    walk(code, "")
    return lines


def measure(pid, tier):
    os.makedirs(OUT, exist_ok=True)
    os.environ["VERIF_JOBS"] = "1"
    os.environ["VERIF_OUT_DIR"] = os.path.join(OUT, "_out")
    os.environ.setdefault("PYTHONHASHSEED", "0")
    sys.path.insert(0, HERE)
    hit = set()
    prefix = os.path.join(os.path.abspath(REPO), "pypika_tortoise") + os.sep
    mon = sys.monitoring
    TOOL = 3
    mon.use_tool_id(TOOL, "linecov")

    def on_line(code, line):
        if code.co_filename.startswith(prefix):
            hit.add((code.co_filename[len(prefix):], line))
        return mon.DISABLE
    mon.register_callback(TOOL, mon.events.LINE, on_line)
    mon.set_events(TOOL, mon.events.LINE)
    from pbt import run
    try:
        rc = run.main([pid, tier])
    finally:
        mon.set_events(TOOL, 0)
    json.dump(sorted(hit), open(os.path.join(OUT, pid + ".json"), "w"))
    print("linecov %s %s: rc=%s, %d lines" % (pid, tier, rc, len(hit)))


def report():
    hit = set()
    per = {}
    for f in sorted(os.listdir(OUT)):
        if f.endswith(".json"):
            s = {tuple(x) for x in json.load(open(os.path.join(OUT, f)))}
            per[f[:-5]] = s
            hit |= s
    pkg = os.path.join(REPO, "pypika_tortoise")
    tot = miss = 0
    for root, _, files in os.walk(pkg):
        for fn in sorted(files):
            if not fn.endswith(".py"):
                continue
            p = os.path.join(root, fn)
            rel = os.path.relpath(p, pkg)
            ex = executable_lines(p)
            missing = sorted(l for l in ex if (rel, l) not in hit)
            tot += len(ex)
            miss += len(missing)
            byfn = {}
            for l in missing:
                byfn.setdefault(ex[l], []).append(l)
            print("== %s: %d executable, %d never executed" % (rel, len(ex), len(missing)))
            for q, ls in sorted(byfn.items(), key=lambda kv: kv[1][0]):
                print("   %-60s %s" % (q or "<module>", ",".join(map(str, ls))))
    print("TOTAL executable %d, never executed by any measured check %d (%.1f%%)" % (tot, miss, 100.0 * miss / max(tot, 1)))


if __name__ == "__main__":
    if sys.argv[1] == "report":
        report()
    else:
        measure(sys.argv[1].upper(), sys.argv[2] if len(sys.argv) > 2 else "quick")
