#!/venv/bin/python
"""tools/mutation_campaign.py <n-mutants> <seed> [--skip k] [--workers 3] [--out results.jsonl]

Systematic sensitivity measurement: AST-level mutants of /repo/pypika_tortoise (comparison / boolean operator swaps, negation of
conditions, True<->False, small integers +-1, deleted statements, flipped boolean keyword arguments), sampled with a fixed seed.
Each mutant is applied in a scratch copy (outside /repo and /verif, removed at the end); the repository's own tests run first -
a mutant they kill says nothing about the checks; the survivors are run against ALL 18 quick checks (VERIF_REPO_DIR).
Output: one JSON line per mutant {file, line, kind, before, after, tests, killed_by: [...]} and a summary.
This is a measuring tool, not a registered check."""
import ast, json, os, random, re, shutil, subprocess, sys, tempfile
from concurrent.futures import ThreadPoolExecutor

HERE = os.path.dirname(os.path.dirname(os.path.abspath(__file__)))
VERIF_SNAPSHOT = None
REPO = "/repo"
PKG = os.path.join(REPO, "pypika_tortoise")
CMP = {ast.Eq: "!=", ast.NotEq: "==", ast.Lt: "<=", ast.LtE: "<", ast.Gt: ">=", ast.GtE: ">", ast.Is: "is not", ast.IsNot: "is", ast.In: "not in", ast.NotIn: "in"}


def seg(src_lines, node):
    """(start offset, end offset) of a node in the joined source"""
    def off(line, col):
        return sum(len(l) for l in src_lines[:line - 1]) + len(src_lines[line - 1].encode()[:col].decode())
    return off(node.lineno, node.col_offset), off(node.end_lineno, node.end_col_offset)


def mutants_of(path, base=REPO):
    src = open(path).read()
    lines = src.splitlines(True)
    tree = ast.parse(src)
    out = []
    rel = os.path.relpath(path, base)

    def add(kind, a, b, new, line):
        out.append({"file": rel, "line": line, "kind": kind, "start": a, "end": b, "before": src[a:b][:80], "after": new[:80], "new": new})

    for fn in ast.walk(tree):
        if isinstance(fn, (ast.FunctionDef, ast.AsyncFunctionDef)):
            for st in fn.body:
                # delete simple statements (not docstrings, not the only statement)
                if len(fn.body) > 1 and isinstance(st, (ast.Assign, ast.AugAssign, ast.Expr)) and not (isinstance(st, ast.Expr) and isinstance(st.value, ast.Constant)):
                    a, b = seg(lines, st)
                    add("delete_stmt", a, b, "pass", st.lineno)
    for node in ast.walk(tree):
        if isinstance(node, ast.Compare) and len(node.ops) == 1 and type(node.ops[0]) in CMP:
            a, _ = seg(lines, node.left)
            _, b = seg(lines, node.comparators[0])
            la, lb = seg(lines, node.left)
            ra, rb = seg(lines, node.comparators[0])
            add("cmp_swap", a, b, src[la:lb] + " " + CMP[type(node.ops[0])] + " " + src[ra:rb], node.lineno)
        elif isinstance(node, ast.BoolOp) and len(node.values) == 2:
            la, lb = seg(lines, node.values[0])
            ra, rb = seg(lines, node.values[1])
            op = " or " if isinstance(node.op, ast.And) else " and "
            add("boolop_swap", la, rb, src[la:lb] + op + src[ra:rb], node.lineno)
        elif isinstance(node, ast.UnaryOp) and isinstance(node.op, ast.Not):
            a, b = seg(lines, node)
            oa, ob = seg(lines, node.operand)
            add("drop_not", a, b, src[oa:ob], node.lineno)
        elif isinstance(node, (ast.If, ast.IfExp, ast.While)) and not isinstance(node.test, ast.UnaryOp):
            a, b = seg(lines, node.test)
            add("negate_cond", a, b, "not (" + src[a:b] + ")", node.lineno)
        elif isinstance(node, ast.Constant) and isinstance(node.value, bool):
            a, b = seg(lines, node)
            add("bool_flip", a, b, str(not node.value), node.lineno)
        elif isinstance(node, ast.Constant) and isinstance(node.value, int) and not isinstance(node.value, bool) and abs(node.value) <= 10:
            a, b = seg(lines, node)
            add("int_plus1", a, b, str(node.value + 1), node.lineno)
    if EXTRA_OPS:
        out = []  # the second operator set is sampled on its own
        SWAP = {"left": "right", "right": "left", "_limit": "_offset", "_offset": "_limit", "start": "end", "end": "start", "_wheres": "_havings", "_havings": "_wheres",
                "quote_char": "alias_quote_char", "alias_quote_char": "quote_char", "secondary_quote_char": "quote_char"}
        for node in ast.walk(tree):
            if isinstance(node, ast.Call):
                for kw in node.keywords:
                    if kw.arg is None:
                        continue
                    # remove one keyword argument (with its comma)
                    va, vb = seg(lines, kw.value)
                    a = src.rfind(kw.arg, 0, va)
                    b = vb
                    rest = src[b:b + 40]
                    m = re.match(r"\s*,\s*", rest)
                    if m:
                        b += m.end()
                    else:
                        head = src[:a]
                        m2 = re.search(r",\s*$", head)
                        if m2:
                            a = m2.start()
                    add("drop_kwarg", a, b, "", node.lineno)
                if len(node.args) >= 2 and not any(isinstance(x, ast.Starred) for x in node.args[:2]):
                    a0, b0 = seg(lines, node.args[0])
                    a1, b1 = seg(lines, node.args[1])
                    if src[a0:b0] != src[a1:b1]:
                        add("swap_args", a0, b1, src[a1:b1] + src[b0:a1] + src[a0:b0], node.lineno)
                f = node.func
                if ((isinstance(f, ast.Name) and f.id in ("copy", "deepcopy")) or (isinstance(f, ast.Attribute) and f.attr in ("copy", "deepcopy") and isinstance(f.value, ast.Name) and f.value.id == "copy")) and len(node.args) == 1 and not node.keywords:
                    a, b = seg(lines, node)
                    xa, xb = seg(lines, node.args[0])
                    add("drop_copy", a, b, src[xa:xb], node.lineno)
                if isinstance(f, ast.Attribute) and f.attr == "copy" and not node.args and not node.keywords:
                    a, b = seg(lines, node)
                    xa, xb = seg(lines, f.value)
                    add("drop_copy", a, b, src[xa:xb], node.lineno)
            elif isinstance(node, (ast.FunctionDef, ast.AsyncFunctionDef)):
                for d in node.decorator_list:
                    if isinstance(d, ast.Name) and d.id in ("builder", "ignore_copy"):
                        a, b = seg(lines, d)
                        add("drop_decorator", a - 1, b, "", d.lineno)
            elif isinstance(node, ast.AugAssign):
                ta, tb = seg(lines, node.target)
                va, vb = seg(lines, node.value)
                add("aug_to_assign", ta, vb, src[ta:tb] + " = " + src[va:vb], node.lineno)
            elif isinstance(node, (ast.List, ast.Tuple, ast.Set)) and len(node.elts) >= 2 and isinstance(getattr(node, "ctx", ast.Load()), ast.Load):
                pa, pb = seg(lines, node.elts[-2])
                la, lb = seg(lines, node.elts[-1])
                add("drop_last_elem", pb, lb, "", node.lineno)
            elif isinstance(node, ast.Attribute) and node.attr in SWAP and isinstance(node.ctx, ast.Load):
                a, b = seg(lines, node)
                va, vb = seg(lines, node.value)
                add("swap_attr", a, b, src[va:vb] + "." + SWAP[node.attr], node.lineno)
            elif isinstance(node, ast.Return) and node.value is not None and isinstance(node.value, ast.IfExp):
                a, b = seg(lines, node.value)
                ba, bb = seg(lines, node.value.body)
                add("ifexp_body_only", a, b, src[ba:bb], node.lineno)
    return src, out


EXTRA_OPS = "--extra-ops" in sys.argv


def all_mutants(base=REPO):
    res = []
    for root, _, files in os.walk(os.path.join(base, "pypika_tortoise")):
        for f in sorted(files):
            if f.endswith(".py"):
                p = os.path.join(root, f)
                src, ms = mutants_of(p, base)
                for m in ms:
                    res.append(m)
    return res


def sh(cmd, **kw):
    return subprocess.run(cmd, shell=True, capture_output=True, text=True, **kw)


def evaluate(m, wdir):
    path = os.path.join(wdir, m["file"])
    orig = open(os.path.join(wdir, m["file"] + ".orig")).read()  # the snapshot the offsets were computed from
    new = orig[:m["start"]] + m["new"] + orig[m["end"]:]
    try:
        ast.parse(new)
    except SyntaxError:
        return dict(m, tests="syntax_error", killed_by=[])
    open(path, "w").write(new)
    try:
        imp = sh("cd %s && /venv/bin/python -c 'import pypika_tortoise, pypika_tortoise.dialects'" % wdir)
        if imp.returncode != 0:
            return dict(m, tests="import_error", killed_by=[])
        t = sh("cd %s && timeout 120 /venv/bin/python -m pytest -q -x -p no:cacheprovider 2>&1 | tail -1" % wdir).stdout.strip()
        if "867 passed" not in t:
            return dict(m, tests="killed", killed_by=[])
        killed = []
        for i in range(1, 19):
            c = "C%02d" % i
            env = dict(os.environ, VERIF_REPO_DIR=wdir, VERIF_JOBS="5", VERIF_OUT_DIR=os.path.join(wdir, "_out"))
            try:
                r = subprocess.run(["./check", c, "quick"], cwd=VERIF_SNAPSHOT or HERE, env=env, capture_output=True, text=True, timeout=600)
                if r.returncode == 1:
                    sigs = re.findall(r"signature: (\S+)", r.stdout)
                    killed.append({"check": c, "sig": sigs[0] if sigs else "?"})
                elif r.returncode != 0:
                    killed.append({"check": c, "sig": "HARNESS_EXIT_%d" % r.returncode})
            except subprocess.TimeoutExpired:
                killed.append({"check": c, "sig": "TIMEOUT"})
        return dict(m, tests="survived", killed_by=killed)
    finally:
        open(path, "w").write(orig)


def main():
    n, seed = int(sys.argv[1]), int(sys.argv[2])
    workers = int(sys.argv[sys.argv.index("--workers") + 1]) if "--workers" in sys.argv else 3
    outp = sys.argv[sys.argv.index("--out") + 1] if "--out" in sys.argv else "/tmp/mutation_campaign.jsonl"
    base = tempfile.mkdtemp(prefix="mutc-")
    dirs = []
    for k in range(workers):
        d = os.path.join(base, "w%d" % k)
        sh("rsync -a --exclude .git --exclude __pycache__ %s/ %s/" % (REPO if k == 0 else dirs[0], d))
        dirs.append(d)
    # the committed state of /verif is copied as well: fixes recorded later would otherwise fire their regression replays on the old snapshot
    global VERIF_SNAPSHOT
    VERIF_SNAPSHOT = os.path.join(base, "verif")
    os.makedirs(VERIF_SNAPSHOT)
    sh("git -C %s archive HEAD | tar -x -C %s" % (HERE, VERIF_SNAPSHOT))
    # everything below works on the snapshot in the scratch copies, so /repo may move on while the campaign runs
    ms = all_mutants(dirs[0])
    for d in dirs:
        for rel in sorted({m["file"] for m in ms}):
            shutil.copy(os.path.join(d, rel), os.path.join(d, rel + ".orig"))
    if "--match" in sys.argv:
        # re-evaluate the mutants listed in a file of earlier results (matched by file, line, kind and original text)
        recs = [json.loads(l) for l in open(sys.argv[sys.argv.index("--match") + 1])]
        if "--match-text" in sys.argv:
            # the tree has moved on since the earlier campaign: match by file, kind and the mutated text (line numbers have shifted)
            want = {(r["file"], r["kind"], r["before"], r["after"]) for r in recs}
            ms = [m for m in ms if (m["file"], m["kind"], m["before"], m["after"]) in want]
        else:
            want = {(r["file"], r["line"], r["kind"], r["before"]) for r in recs}
            ms = [m for m in ms if (m["file"], m["line"], m["kind"], m["before"]) in want]
    if "--changed-since" in sys.argv:
        # only mutants on lines that /repo added or changed since the given commit (the code the latest rounds of repairs wrote)
        base = sys.argv[sys.argv.index("--changed-since") + 1]
        changed = {}
        cur = None
        for line in sh("git -C %s diff -U0 %s HEAD -- pypika_tortoise" % (REPO, base)).stdout.splitlines():
            if line.startswith("+++ b/"):
                cur = line[6:]
            m_ = re.match(r"@@ -\S+ \+(\d+)(?:,(\d+))? @@", line)
            if m_ and cur:
                a, k = int(m_.group(1)), int(m_.group(2) or 1)
                changed.setdefault(cur, set()).update(range(a, a + k))
        ms = [m for m in ms if m["line"] in changed.get(m["file"], ())]
        print("mutants on changed lines: %d" % len(ms))
    rnd = random.Random(seed)
    rnd.shuffle(ms)
    skip = int(sys.argv[sys.argv.index("--skip") + 1]) if "--skip" in sys.argv else 0
    ms = ms[skip:skip + n]
    free = list(dirs)

    def job(m):
        d = free.pop()
        try:
            return evaluate(m, d)
        finally:
            free.append(d)

    done = 0
    with open(outp, "w") as f, ThreadPoolExecutor(workers) as ex:
        for r in ex.map(job, ms):
            r = {k: v for k, v in r.items() if k not in ("new", "start", "end")}
            f.write(json.dumps(r) + "\n")
            f.flush()
            done += 1
    shutil.rmtree(base, ignore_errors=True)
    rs = [json.loads(l) for l in open(outp)]
    surv = [r for r in rs if r["tests"] == "survived"]
    print("mutants %d | killed by the repository tests %d | not importable / syntax %d | survived the tests %d | of these killed by the checks %d | alive %d" % (
        len(rs), sum(r["tests"] == "killed" for r in rs), sum(r["tests"] in ("syntax_error", "import_error") for r in rs), len(surv),
        sum(bool(r["killed_by"]) for r in surv), sum(not r["killed_by"] for r in surv)))


if __name__ == "__main__":
    main()
