#!/venv/bin/python
"""tools/equiv_verify.py <E> <k> <summary>
Behaviour-preserving refactorings (fourth round): applies /tmp/seed4/<E>/e<k>.diff in that worktree, runs the repository tests and ALL 18 quick
checks with VERIF_REPO_DIR; any VIOLATION is a false alarm to be investigated. Stores seeded/EQ-<E>-e<k>/{patch.diff,meta.json}."""
import json, os, re, shutil, subprocess, sys
from concurrent.futures import ThreadPoolExecutor
HERE = os.path.dirname(os.path.dirname(os.path.abspath(__file__)))
E, k, summary = sys.argv[1:4]
wt = "%s/%s" % (os.environ.get("EQ_ROOT", "/tmp/seed4"), E)
diff = os.path.join(wt, "e%s.diff" % k)
def sh(cmd, **kw):
    return subprocess.run(cmd, shell=True, capture_output=True, text=True, **kw)
assert sh("git -C %s status --porcelain -- pypika_tortoise" % wt).stdout.strip() == "", "worktree not clean"
r = sh("git -C %s apply %s" % (wt, diff)); assert r.returncode == 0, r.stderr
ids = ["C%02d" % i for i in range(1, 19)]
try:
    t = sh("cd %s && /venv/bin/python -m pytest -q -p no:cacheprovider 2>&1 | tail -1" % wt).stdout.strip()
    def run(c):
        env = dict(os.environ, VERIF_REPO_DIR=wt, VERIF_JOBS="4")
        out = subprocess.run(["./check", c, "quick"], cwd=HERE, env=env, capture_output=True, text=True)
        sigs = re.findall(r"signature: (\S+)", out.stdout)
        det = re.findall(r"detail: (.*)", out.stdout)
        return {"check": c, "exit": out.returncode, "signatures": sigs[:8], "details": [d[:300] for d in det[:3]], "stderr": out.stderr[-300:] if out.returncode == 2 else ""}
    with ThreadPoolExecutor(4) as ex:
        results = list(ex.map(run, ids))
finally:
    sh("git -C %s checkout -- pypika_tortoise" % wt)
    sh("git -C %s clean -fdq pypika_tortoise" % wt)
    sh("git -C %s checkout -- evidence" % HERE)
    sh("find %s/replays -name 'viol-*.json' -delete" % HERE)
bad = [r for r in results if r["exit"] != 0]
print("tests:", t, "| alarms:", ",".join(r["check"] for r in bad) or "none")
for r in bad:
    print("  ", r["check"], "exit", r["exit"], r["signatures"][:4], r["details"][:1], r["stderr"])
dst = os.path.join(HERE, "seeded", "%s-%s-e%s" % (os.environ.get("EQ_TAG", "EQ"), E, k))
os.makedirs(dst, exist_ok=True)
shutil.copy(diff, os.path.join(dst, "patch.diff"))
base = sh("git -C %s rev-parse --short HEAD" % wt).stdout.strip()
meta = {"property": "none (behaviour-preserving refactoring)", "summary": summary, "needs": "-", "base_commit": base, "round": int(os.environ.get("EQ_ROUND", "4")),
        "verified": {"repo_tests_with_change": t, "how": "git apply in a scratch worktree of /repo HEAD; pytest; VERIF_REPO_DIR=<worktree> ./check <ID> quick for all 18 checks; expected: no alarm"},
        "checks": [{"check": r["check"], "tier": "quick", "result": "exit %d; ALARM %s" % (r["exit"], ", ".join(r["signatures"][:3]))} for r in bad] or [{"check": "all 18", "tier": "quick", "result": "exit 0; no alarm"}]}
json.dump(meta, open(os.path.join(dst, "meta.json"), "w"), indent=1)
