#!/venv/bin/python
"""tools/promote.py <ID> <sig> <what...>            -> open finding (viol-*.json -> known-*.json)
   tools/promote.py --fixed <commit> <ID> <sig> <what...>  -> fixed entry (viol-*.json -> fixed-*.json)"""
import os, sys, hashlib, json
HERE = os.path.dirname(os.path.dirname(os.path.abspath(__file__)))
sys.path.insert(0, HERE)
from pbt.core import chash
args = sys.argv[1:]
fixed = None
if args[0] == "--fixed":
    fixed = args[1]; args = args[2:]
pid, sig, what = args[0], args[1], " ".join(args[2:])
src = os.path.join(HERE, "replays", pid, "viol-%s.json" % chash(sig))
if not os.path.exists(src):
    sys.exit("no replay file for %s (%s)" % (sig, src))
dst = os.path.join(HERE, "replays", pid, "%s-%s.json" % ("fixed" if fixed else "known", chash(sig)))
if os.path.exists(dst):
    sys.exit("a replay with this signature exists already (%s): make the signature of the new finding more specific" % dst)
os.rename(src, dst)
rel = os.path.relpath(dst, HERE)
with open(os.path.join(HERE, "KNOWN_FINDINGS.txt"), "a") as f:
    if fixed:
        f.write("fixed: property=%s %s sig=%s replay=%s :: %s\n" % (pid, fixed, sig, rel, what))
    else:
        f.write("finding: property=%s sig=%s replay=%s :: %s\n" % (pid, sig, rel, what))
print("ok", rel)
