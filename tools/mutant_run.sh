#!/bin/bash
# tools/mutant_run.sh <patch.diff> <ID> [tier]  : apply a patch to a scratch copy of /repo, run the repo tests and one check against it
set -u
PATCH=$(readlink -f "$1"); ID=$2; TIER=${3:-quick}
D=$(mktemp -d /tmp/mut.XXXXXX)
rsync -a --exclude .git --exclude __pycache__ /repo/ "$D/"
( cd "$D" && patch -p1 -s < "$PATCH" ) || { echo "PATCH FAILED"; rm -rf "$D"; exit 3; }
( cd "$D" && /venv/bin/python -m pytest -q -p no:cacheprovider -x 2>&1 | tail -1 )
cd "$(dirname "$0")/.." && VERIF_REPO_DIR="$D" ./check "$ID" "$TIER" > "$D/out.txt" 2>&1; rc=$?
grep -c '^VIOLATION' "$D/out.txt" | sed 's/^/violations: /'
grep -A2 '^VIOLATION' "$D/out.txt" | head -${LINES_SHOWN:-12}
tail -1 "$D/out.txt"
echo "rc=$rc"
rm -rf "$D"
git -C "$(dirname "$0")/.." checkout -- evidence 2>/dev/null
find "$(dirname "$0")/../replays" -name 'viol-*.json' -delete
exit 0
