"""Reference precedence parser for SQL scalar/boolean expressions (oracle component of C06).

Precedence ladder (low -> high), the reading shared by the engines the library targets:
    OR  <  XOR  <  AND  <  NOT  <  comparison (= <> < > <= >= IS [NOT] NULL, [NOT] IN, [NOT] LIKE/ILIKE/..., [NOT] BETWEEN)
        <  &  <  + -  <  * /  <  unary minus
Binary operators are left-associative.  BETWEEN's AND belongs to BETWEEN.  Parentheses are discarded.

Both the parsed tree and the built tree (program data) are mapped to one normal form in which exactly the
re-associations the property allows are invisible: a +/- chain becomes an ordered list of signed operands,
a pure * chain and an AND / OR / XOR chain of one connective are flattened.
"""
from __future__ import annotations

from pbt.lex import Token

CMP = {"=": "eq", "<>": "ne", "!=": "ne", ">": "gt", ">=": "ge", "<": "lt", "<=": "le"}
MATCHW = {"LIKE": "like", "ILIKE": "ilike", "RLIKE": "rlike", "REGEX": "regex", "GLOB": "glob"}


class ParseError(Exception):
    pass


class P:
    def __init__(self, toks: list[Token]):
        self.t = toks
        self.i = 0

    def peek(self, k=0):
        j = self.i + k
        return self.t[j] if j < len(self.t) else None

    def isw(self, word, k=0):
        t = self.peek(k)
        return t is not None and t.kind == "word" and t.value == word

    def isp(self, ch, k=0):
        t = self.peek(k)
        return t is not None and t.kind == "punct" and t.text == ch

    def isop(self, ops, k=0):
        t = self.peek(k)
        return t is not None and t.kind == "op" and t.text in ops

    def eat(self):
        t = self.peek()
        if t is None:
            raise ParseError("unexpected end")
        self.i += 1
        return t

    def expect_w(self, word):
        if not self.isw(word):
            raise ParseError("expected %s at %d" % (word, self.i))
        self.i += 1

    def expect_p(self, ch):
        if not self.isp(ch):
            raise ParseError("expected %r at %d" % (ch, self.i))
        self.i += 1

    # ---- grammar ----
    def expr(self):
        return self.or_()

    def or_(self):
        left = self.xor_()
        while self.isw("OR"):
            self.eat()
            left = ("or", left, self.xor_())
        return left

    def xor_(self):
        left = self.and_()
        while self.isw("XOR"):
            self.eat()
            left = ("xor", left, self.and_())
        return left

    def and_(self):
        left = self.not_()
        while self.isw("AND"):
            self.eat()
            left = ("and", left, self.not_())
        return left

    def not_(self):
        if self.isw("NOT"):
            self.eat()
            return ("not", self.not_())
        return self.cmp_()

    def cmp_(self):
        left = self.bitand()
        while True:
            t = self.peek()
            if t is None:
                return left
            if t.kind == "op" and t.text in CMP:
                self.eat()
                left = (CMP[t.text], left, self.bitand())
                continue
            if self.isw("IS"):
                self.eat()
                neg = False
                if self.isw("NOT"):
                    self.eat()
                    neg = True
                self.expect_w("NULL")
                left = ("isnull", left)
                if neg:
                    left = ("not", left)
                continue
            neg = False
            k = 0
            if self.isw("NOT") and (self.isw("IN", 1) or self.isw("BETWEEN", 1) or (self.peek(1) is not None and self.peek(1).kind == "word" and self.peek(1).value in MATCHW)):
                neg = True
                k = 1
            if self.isw("IN", k):
                self.i += k + 1
                self.expect_p("(")
                if self.isw("SELECT") or self.isw("WITH"):
                    self.skip_balanced()
                    items = [("subq",)]
                else:
                    items = []
                    if not self.isp(")"):
                        items.append(self.expr())
                        while self.isp(","):
                            self.eat()
                            items.append(self.expr())
                    self.expect_p(")")
                left = ("notin" if neg else "in", left, tuple(items))
                continue
            if self.isw("BETWEEN", k):
                self.i += k + 1
                lo = self.bitand()
                self.expect_w("AND")
                hi = self.bitand()
                left = ("between", left, lo, hi)
                if neg:
                    left = ("not", left)
                continue
            t2 = self.peek(k)
            if t2 is not None and t2.kind == "word" and t2.value in MATCHW:
                self.i += k + 1
                name = MATCHW[t2.value]
                if name == "regex" and self.isw("BINARY"):
                    self.eat()
                    name = "bin_regex"
                left = (("not_" if neg else "") + name, left, self.bitand())
                continue
            return left

    def bitand(self):
        left = self.add()
        while self.isop(("&",)):
            self.eat()
            left = ("bitand", left, self.add())
        return left

    def add(self):
        left = self.mul()
        while self.isop(("+", "-")):
            op = self.eat().text
            left = ("add" if op == "+" else "sub", left, self.mul())
        return left

    def mul(self):
        left = self.unary()
        while self.isop(("*", "/")):
            op = self.eat().text
            left = ("mul" if op == "*" else "div", left, self.unary())
        return left

    def unary(self):
        if self.isop(("-",)):
            self.eat()
            return ("neg", self.unary())
        if self.isop(("+",)):
            self.eat()
            return self.unary()
        return self.primary()

    def skip_balanced(self):
        """called just after '(' was consumed; skips to the matching ')' inclusive"""
        depth = 1
        while depth:
            t = self.eat()
            if t.kind == "punct" and t.text == "(":
                depth += 1
            elif t.kind == "punct" and t.text == ")":
                depth -= 1

    def primary(self):
        t = self.peek()
        if t is None:
            raise ParseError("unexpected end")
        if t.kind == "punct" and t.text == "(":
            self.eat()
            if self.isw("SELECT") or self.isw("WITH"):
                self.skip_balanced()
                return ("subq",)
            first = self.expr()
            if self.isp(","):
                items = [first]
                while self.isp(","):
                    self.eat()
                    items.append(self.expr())
                self.expect_p(")")
                return ("tuple", tuple(items))
            self.expect_p(")")
            return first
        if t.kind == "num":
            self.eat()
            return ("num", _numkey(t.text))
        if t.kind == "str":
            self.eat()
            return ("str", t.value)
        if t.kind == "param":
            self.eat()
            return ("param", t.text)
        if t.kind == "qid":
            self.eat()
            parts = [t.value]
            while self.isp(".") and self.peek(1) is not None and self.peek(1).kind in ("qid",):
                self.eat()
                parts.append(self.eat().value)
            if self.isp(".") and self.isop(("*",), 1):
                self.eat()
                self.eat()
                parts.append("*")
            return ("col", parts[-1])
        if t.kind == "word":
            if t.value == "CASE":
                self.eat()
                whens = []
                while self.isw("WHEN"):
                    self.eat()
                    w = self.expr()
                    self.expect_w("THEN")
                    th = self.expr()
                    whens.append((w, th))
                else_ = None
                if self.isw("ELSE"):
                    self.eat()
                    else_ = self.expr()
                self.expect_w("END")
                return ("case", tuple(whens), else_)
            if t.value == "NULL":
                self.eat()
                return ("null",)
            if t.value in ("TRUE", "FALSE"):
                self.eat()
                return ("bool", t.value)
            if t.value in ("NOT", "AND", "OR", "XOR", "IS", "IN", "BETWEEN", "THEN", "ELSE", "END", "WHEN", "LIKE", "FROM", "WHERE"):
                raise ParseError("keyword %s where an operand was expected" % t.value)
            self.eat()
            if self.isp("("):
                self.eat()
                args = []
                if self.isw("DISTINCT"):
                    self.eat()
                if self.isop(("*",)) and self.isp(")", 1):
                    self.eat()
                    args.append(("star",))
                elif not self.isp(")"):
                    args.append(self.expr())
                    while self.isp(","):
                        self.eat()
                        args.append(self.expr())
                self.expect_p(")")
                return ("call", t.value, tuple(args))
            return ("word", t.value)
        raise ParseError("unexpected token %r" % (t,))


def _numkey(text):
    try:
        if any(c in text for c in ".eE"):
            return repr(float(text))
        return str(int(text))
    except ValueError:
        return text


def parse(tokens: list[Token]):
    """-> tree; raises ParseError (also for a comment token or left-over tokens)."""
    for t in tokens:
        if t.kind == "comment":
            raise ParseError("fusion: comment token %r" % t.text)
        if t.kind == "bad":
            raise ParseError("bad token %r" % (t.value,))
    p = P(tokens)
    tree = p.expr()
    if p.i != len(tokens):
        raise ParseError("leftover tokens from %d: %r" % (p.i, [x.text for x in tokens[p.i:p.i + 4]]))
    return tree


# ---- normal form ------------------------------------------------------------------------------------------------

BOOLC = ("and", "or", "xor")


def nf(tree):
    k = tree[0]
    if k in ("add", "sub"):
        items = []
        _flat_add(tree, 1, items)
        return ("sum", tuple(items))
    if k == "mul":
        items = []
        _flat(tree, "mul", items)
        return ("prod", tuple(items))
    if k in BOOLC:
        items = []
        _flat(tree, k, items)
        return (k + "chain", tuple(items))
    if k == "notnull":
        return ("not", ("isnull", nf(tree[1])))
    if k in ("eq", "ne"):
        # Python evaluates a == b as b.__eq__(a) when type(b) is a subclass of type(a): the mirrored comparison is the same comparison
        a, b = nf(tree[1]), nf(tree[2])
        return (k,) + tuple(sorted((a, b), key=repr))
    if k in ("gt", "ge"):
        return ({"gt": "lt", "ge": "le"}[k], nf(tree[2]), nf(tree[1]))
    if k in ("num", "str", "col", "null", "word", "param", "bool", "subq", "star"):
        return tree
    if k == "case":
        return ("case", tuple((nf(w), nf(t)) for w, t in tree[1]), nf(tree[2]) if tree[2] is not None else None)
    if k == "call":
        return ("call", tree[1], tuple(nf(a) for a in tree[2]))
    if k in ("in", "notin"):
        return (k, nf(tree[1]), tuple(nf(x) for x in tree[2]))
    if k == "tuple":
        return ("tuple", tuple(nf(x) for x in tree[1]))
    return (k,) + tuple(nf(x) for x in tree[1:])


def _flat_add(tree, sign, out):
    if tree[0] in ("add", "sub"):
        _flat_add(tree[1], sign, out)
        _flat_add(tree[2], sign if tree[0] == "add" else -sign, out)
    else:
        out.append((sign, nf(tree)))


def _flat(tree, op, out):
    if tree[0] == op:
        _flat(tree[1], op, out)
        _flat(tree[2], op, out)
    else:
        out.append(nf(tree))
