"""Programs as data: a JSON-serialisable description of builder calls and the interpreter that runs it
against the real library, always creating fresh objects.

program := {"cls": <class name>, "sources": {key: src}, "steps": [step...]}
step    := [method, [arg...], {kw: arg}?, then-step?]   (applied to the result of the previous step; the first
           step is applied to the Query class; "then" chains on the result, e.g. join(...).on(...))
src     := ["tbl", name, schema, alias, temporal?] | ["sub", program, alias] | ["cte", name]
arg     := expression | ["src", key] | ["py", json] | ["pyv", kind, text] | ["q", program] | ["enum", Enum, member]
           | ["mkcols", [arg]] (spread: *Columns(...)) | ["pylist", [arg]] | ["pytuple", [arg]] | ["pyset", [arg]] | ["pyfrozenset", [arg]] | ["slice", a, b] | ["index", name]
           | ["column", name, type, nullable, default-arg] | ["edge", "Preceding"|"Following", n] | ["currow"]
"""
from __future__ import annotations

import datetime
import decimal
import uuid

from pbt.core import HarnessError


def lib():
    import pypika_tortoise as P
    from pypika_tortoise import analytics, functions, terms, queries, enums, pseudocolumns
    from pypika_tortoise.dialects import mysql, postgresql, sqlite, mssql, oracle

    return P, analytics, functions, terms, queries, enums, pseudocolumns


CLS_NAMES = ("generic", "sqlite", "mysql", "postgresql", "mssql", "oracle")


def query_cls(name: str):
    import pypika_tortoise as P

    return {"generic": P.Query, "sqlite": P.SQLLiteQuery, "mysql": P.MySQLQuery, "postgresql": P.PostgreSQLQuery,
            "mssql": P.MSSQLQuery, "oracle": P.OracleQuery}[name]


def sql_context(name: str):
    return query_cls(name).SQL_CONTEXT


class Env:
    def __init__(self, cls_name, sources, parent=None, force_cls=None, subst=None):
        self.cls_name = cls_name
        self.sources = sources or {}
        self.parent = parent
        self.force_cls = force_cls
        self.subst = subst or {}
        self.cache: dict = {}

    def src(self, key):
        e = self
        while e is not None:
            if key in e.sources:
                if key not in e.cache:
                    spec = e.subst.get(key, e.sources[key])
                    e.cache[key] = build_source(spec, e)
                return e.cache[key]
            e = e.parent
        raise HarnessError("unknown source key %r" % (key,))


def pyv(kind, text):
    if kind == "int":
        return int(text)
    if kind == "float":
        return float(text)
    if kind == "str":
        return text
    if kind == "bool":
        return bool(text)
    if kind == "none":
        return None
    if kind == "decimal":
        return decimal.Decimal(text)
    if kind == "date":
        return datetime.date.fromisoformat(text)
    if kind == "datetime":
        return datetime.datetime.fromisoformat(text)
    if kind == "time":
        return datetime.time.fromisoformat(text)
    if kind == "uuid":
        return uuid.UUID(text)
    if kind == "json":
        return text  # already a JSON value (dict/list)
    if kind == "literal":
        import ast

        return ast.literal_eval(text)  # Python literals JSON cannot carry: dicts with non-str keys, tuples
    raise HarnessError("unknown pyv kind %r" % kind)


def build_schema(spec):
    P, *_ = lib()
    if spec is None or isinstance(spec, str):
        return spec
    if isinstance(spec, list) and spec and spec[0] == "schema":
        # ["schema", name, parent|None, "db"?]
        parent = build_schema(spec[2]) if len(spec) > 2 and spec[2] is not None else None
        if isinstance(parent, str):
            parent = P.Schema(parent)
        return P.Schema(spec[1], parent=parent)
    if isinstance(spec, list) and spec and spec[0] == "database":
        return P.Database(spec[1])
    if isinstance(spec, list):
        return list(spec)
    raise HarnessError("bad schema spec %r" % (spec,))


def _fresh(text):
    return "".join(list(text)) if isinstance(text, str) and len(text) > 1 else text


def build_source(spec, env):
    P, analytics, functions, terms, queries, enums, pseudo = lib()
    kind = spec[0]
    if kind == "tbl":
        name, schema, alias = spec[1], spec[2] if len(spec) > 2 else None, spec[3] if len(spec) > 3 else None
        qc = None
        extra = spec[4] if len(spec) > 4 else None
        if isinstance(extra, dict) and extra.get("query_cls"):
            qc = query_cls(extra["query_cls"])
        # names and aliases are handed over as fresh string objects: equal text in two different objects, as strings computed at run
        # time are (identity-based comparisons in the library must not get away with interned literals)
        t = P.Table(_fresh(name), schema=build_schema(schema), alias=_fresh(alias), query_cls=qc)
        if isinstance(extra, dict):
            if "for" in extra:
                t = t.for_(build_arg(extra["for"], env))
            if "for_portion" in extra:
                t = t.for_portion(build_arg(extra["for_portion"], env))
        return t
    if kind == "sub":
        q = build_program(spec[1], parent=env)
        if len(spec) > 2 and spec[2] is not None:
            q = q.as_(spec[2])
        if len(spec) > 3 and isinstance(spec[3], dict) and spec[3].get("preused"):
            # the object has served as the FROM source of an earlier statement, which gave it its automatic alias (sq0) - a documented side effect
            P.Query.from_(q)
            if spec[3].get("derived"):
                # ... and a further builder was derived from it afterwards (it is a copy: what it inherits of that alias is the question)
                q = q.where(P.Field("k1") > 0)
        return q
    if kind == "cte":
        q = P.AliasedQuery(spec[1])
        return q.as_(spec[2]) if len(spec) > 2 and spec[2] else q  # a reference to the CTE under an alias of its own
    if kind == "mk":
        # a table made by make_tables / Query.Tables: a name, or a (name, alias) pair
        from pypika_tortoise.queries import make_tables

        return make_tables((spec[1], spec[2]) if len(spec) > 2 and spec[2] is not None else spec[1])[0]
    raise HarnessError("bad source %r" % (spec,))


BIN = {"add": lambda a, b: a + b, "sub": lambda a, b: a - b, "mul": lambda a, b: a * b, "div": lambda a, b: a / b,
       "eq": lambda a, b: a == b, "ne": lambda a, b: a != b, "gt": lambda a, b: a > b, "ge": lambda a, b: a >= b,
       "lt": lambda a, b: a < b, "le": lambda a, b: a <= b,
       "and": lambda a, b: a & b, "or": lambda a, b: a | b, "xor": lambda a, b: a ^ b,
       "pow": lambda a, b: a ** b, "mod": lambda a, b: a % b}
MATCH = ("like", "not_like", "ilike", "not_ilike", "rlike", "regex", "bin_regex", "glob", "as_of")
JSONOPS = ("get_json_value", "get_text_value", "get_path_json_value", "get_path_text_value", "has_key", "contains",
           "contained_by", "has_keys", "has_any_keys")


def is_term(x):
    from pypika_tortoise.terms import Node

    return isinstance(x, Node)


def build_arg(node, env):
    """Any argument node -> python object."""
    P, analytics, functions, terms, queries, enums, pseudo = lib()
    if not isinstance(node, list) or not node or not isinstance(node[0], str):
        raise HarnessError("bad arg node %r" % (node,))
    k = node[0]
    if k == "src":
        return env.src(node[1])
    if k == "cte":
        return build_source(node, env)
    if k == "py" or k == "raw":
        return node[1]
    if k == "pyv":
        return pyv(node[1], node[2])
    if k == "q" or k == "subq":
        return build_program(node[1], parent=env)
    if k == "enum":
        return getattr(getattr(enums, node[1]), node[2])
    if k == "pylist":
        return [build_arg(a, env) for a in node[1]]
    if k == "pytuple":
        return tuple(build_arg(a, env) for a in node[1])
    if k == "pyset":
        return set(build_arg(a, env) for a in node[1])
    if k == "pyfrozenset":
        return frozenset(build_arg(a, env) for a in node[1])
    if k == "mkcols":
        return _Splat(P.Columns(*[build_arg(a, env) for a in node[1]]))
    if k == "slice":
        return slice(node[1], node[2])
    if k == "index":
        return P.Index(node[1])
    if k == "column":
        default = build_arg(node[4], env) if len(node) > 4 and node[4] is not None else None
        return P.Column(node[1], node[2] if len(node) > 2 else None, node[3] if len(node) > 3 else None, default)
    if k == "edge":
        return getattr(analytics, node[1])(node[2])
    if k == "currow":
        return analytics.CURRENT_ROW
    return build_expr(node, env)


EXTRA_NODES: dict = {}  # node kind -> callable(node, env); lets a property plug in harness-defined terms


def build_expr(node, env):
    P, analytics, functions, terms, queries, enums, pseudo = lib()
    k = node[0]
    if k in EXTRA_NODES:
        return EXTRA_NODES[k](node, env)
    A = lambda n: build_arg(n, env)  # noqa: E731
    if k == "col":
        table = env.src(node[1]) if node[1] is not None else None
        return P.Field(node[2], table=table) if len(node) < 4 or node[3] is None else P.Field(node[2], alias=node[3], table=table)
    if k == "star":
        return terms.Star(env.src(node[1]) if len(node) > 1 and node[1] is not None else None)
    if k == "vw":
        v = A(node[1])
        alias = node[2] if len(node) > 2 else None
        wc = node[3] if len(node) > 3 else None
        cls = terms.ValueWrapper
        if wc == "mysql":
            from pypika_tortoise.dialects import MySQLValueWrapper as cls
        elif wc == "sqlite":
            from pypika_tortoise.dialects import SQLLiteValueWrapper as cls
        return cls(v, alias) if alias is not None else cls(v)
    if k == "vwnp":
        return terms.ValueWrapper(A(node[1]), allow_parametrize=False)
    if k == "null":
        return terms.NullValue()
    if k == "emptycrit":
        return terms.EmptyCriterion()  # the neutral element of & | ^ (public export)
    if k == "lit":
        return terms.LiteralValue(node[1])
    if k == "systime":
        return terms.SystemTimeValue()
    if k == "neg":
        return -A(node[1])
    if k in BIN:
        a, b = A(node[1]), A(node[2])
        if not is_term(a) and not is_term(b):
            raise HarnessError("binary op over two raw values")
        return BIN[k](a, b)
    if k in MATCH:
        return getattr(A(node[1]), k)(A(node[2]))
    if k == "not":
        return ~A(node[1]) if (len(node) < 3 or node[2] != "cls") else terms.Not(A(node[1]))
    if k == "isnull":
        return A(node[1]).isnull()
    if k == "notnull":
        return A(node[1]).notnull()
    if k in ("in", "notin"):
        t = A(node[1])
        c = node[2]
        if isinstance(c, list) and c and isinstance(c[0], str):
            cont = A(c)
        else:
            cont = [A(x) for x in c]
        return t.isin(cont) if k == "in" else t.notin(cont)
    if k == "between":
        return A(node[1]).between(A(node[2]), A(node[3]))
    if k == "slicebetween":
        return A(node[1])[A(node[2]):A(node[3])]
    if k == "from_to":
        return A(node[1]).from_to(A(node[2]), A(node[3]))
    if k == "bitand":
        return A(node[1]).bitwiseand(node[2])
    if k == "all":
        return A(node[1]).all_()
    if k == "case":
        c = P.Case(alias=node[3]) if len(node) > 3 and node[3] is not None else P.Case()
        for w, t in node[1]:
            c = c.when(A(w), A(t))
        if len(node) > 2 and node[2] is not None:
            c = c.else_(A(node[2]))
        return c
    if k == "fn":
        cls = getattr(functions, node[1])
        kw = {kk: A(v) if isinstance(v, list) else v for kk, v in (node[3] if len(node) > 3 else {}).items()}
        return cls(*[A(a) for a in node[2]], **kw)
    if k == "cfn":
        kw = dict(node[3]) if len(node) > 3 else {}
        if isinstance(kw.get("schema"), str):
            kw["schema"] = P.Schema(kw["schema"])
        return terms.Function(node[1], *[A(a) for a in node[2]], **kw)
    if k == "customfn":
        # ["customfn", name, [parameter names], [args]] : a user-declared function (CustomFunction factory) called with args
        return P.CustomFunction(node[1], list(node[2]))(*[A(a) for a in node[3]])
    if k == "aggfn":
        f = terms.AggregateFunction(node[1], *[A(a) for a in node[2]])
        return f
    if k == "an":
        cls = getattr(analytics, node[1])
        f = cls(*[A(a) for a in node[2]])
        return f
    if k == "call":
        # ["call", receiver-expr, method, [args], {kw}] : builder-style methods on terms (over, orderby, filter, rows, distinct, ...)
        recv = A(node[1])
        kw = {kk: A(v) for kk, v in (node[4] if len(node) > 4 else {}).items()}
        return getattr(recv, node[2])(*[A(a) for a in node[3]], **kw)
    if k == "tuple":
        return P.Tuple(*[A(a) for a in node[1]])
    if k == "array":
        return P.Array(*[A(a) for a in node[1]])
    if k == "bracket":
        return P.Bracket(A(node[1]))
    if k == "json":
        return P.JSON(node[1]) if len(node) < 3 or node[2] is None else P.JSON(node[1], alias=node[2])
    if k in JSONOPS:
        return getattr(A(node[1]), k)(A(node[2]))
    if k == "interval":
        kw = dict(node[1])
        if "dialect" in kw:
            kw["dialect"] = getattr(enums.Dialects, kw["dialect"])
        return P.Interval(**kw)
    if k == "param":
        if isinstance(node[1], int):
            return P.Parameter(idx=node[1])
        return P.Parameter(node[1])
    if k == "as":
        return A(node[1]).as_(node[2])
    if k == "values":
        return terms.Values(A(node[1]) if isinstance(node[1], list) else node[1])
    if k == "pseudo":
        return terms.PseudoColumn(node[1])
    if k == "attz":
        return terms.AtTimezone(A(node[1]) if isinstance(node[1], list) else node[1], node[2], interval=bool(node[3]) if len(node) > 3 else False)
    if k == "index":
        return P.Index(node[1])
    if k == "rollup":
        return P.Rollup(*[A(a) for a in node[1]])
    if k == "extract":
        return functions.Extract(A(node[1]), A(node[2]))
    if k == "cast":
        return functions.Cast(A(node[1]), node[2])
    if k == "nested":
        return terms.NestedCriterion(enums.Equality.eq, enums.Boolean.and_, A(node[1]), A(node[2]), A(node[3]))
    if k in ("joinon", "joinusing", "joincross"):
        how = getattr(enums.JoinType, node[2]) if len(node) > 2 and node[2] else enums.JoinType.inner
        if k == "joinon":
            return queries.JoinOn(A(node[1]), how, A(node[3]))
        if k == "joinusing":
            return queries.JoinUsing(A(node[1]), how, [P.Field(n) for n in node[3]])
        return queries.Join(A(node[1]), enums.JoinType.cross)
    if k == "schemaobj":
        r = build_schema(node[1])
        return P.Schema(r) if isinstance(r, str) else r
    if k == "aliasedq":
        return P.AliasedQuery(node[1], build_program(node[2], parent=env) if len(node) > 2 and node[2] is not None else None)
    if k == "replace_table":
        return A(node[1]).replace_table(A(node[2]) if node[2] is not None else None, A(node[3]) if node[3] is not None else None)
    raise HarnessError("unknown expression node %r" % (k,))


class _Splat(list):
    """a list-valued argument that is spread into the call (q.columns(*Columns(...)))"""


def apply_step(obj, step, env):
    m = step[0]
    args = []
    for a in (step[1] if len(step) > 1 else []):
        v = build_arg(a, env)
        if isinstance(v, _Splat):
            args.extend(v)
        else:
            args.append(v)
    kw = {k: build_arg(v, env) for k, v in (step[2] if len(step) > 2 and step[2] else {}).items()}
    if m == "__getitem__":
        res = obj[args[0]]
    else:
        res = getattr(obj, m)(*args, **kw)
    if len(step) > 3 and step[3]:
        res = apply_step(res, step[3], env)
    return res


def build_program(p, parent=None, force_cls=None, subst=None, upto=None):
    """Run the program and return the final object.  Library exceptions propagate."""
    fc = force_cls or (parent.force_cls if parent is not None else None)
    cls_name = p.get("cls", "generic")
    if fc and not p.get("cls_fixed"):
        cls_name = fc
    elif cls_name == "inherit":
        cls_name = parent.cls_name if parent is not None else "generic"
    env = Env(cls_name, p.get("sources"), parent=parent, force_cls=fc, subst=subst)
    root = p.get("root", "query")
    if root == "query":
        obj = query_cls(cls_name)
    elif root == "term":
        return build_arg(p["term"], env)
    elif root == "src":
        obj = env.src(p["key"])
    else:
        raise HarnessError("bad root %r" % root)
    steps = p["steps"] if upto is None else p["steps"][:upto]
    for step in steps:
        obj = apply_step(obj, step, env)
    return obj


def render(obj, cls_name=None, parameterized=False):
    """Render a built object under a class context. Returns sql or (sql, values)."""
    from pypika_tortoise import Parameterizer

    ctx = sql_context(cls_name) if cls_name else None
    if not parameterized:
        if ctx is None:
            return str(obj)
        return obj.get_sql(ctx)
    par = Parameterizer()
    if ctx is None:
        ctx = obj.QUERY_CLS.SQL_CONTEXT
    sql = obj.get_sql(ctx.copy(parameterizer=par))
    return sql, list(par.values)


def library_exceptions():
    from pypika_tortoise import exceptions

    return (exceptions.BasePypikaException,)
