"""Shared Hypothesis strategies producing program data (see pbt/prog.py for the grammar)."""
from __future__ import annotations

import functools

from hypothesis import strategies as st

# a fixed pool of table sources; every prog.Env instantiates fresh Table objects from these specs
SOURCES = {
    "T": ["tbl", "t1", None, None],
    "U": ["tbl", "t2", None, None],
    "V": ["tbl", "t3", None, None],
    "X": ["tbl", "t1", None, "x"],
    "Y": ["tbl", "t2", None, "y"],
    "S": ["tbl", "t4", "sch", None],
    "P": ["tbl", "t5", None, None, {"for": ["between", ["systime"], ["raw", "2020-01-01"], ["raw", "2020-02-01"]]}],
}
PLAIN_KEYS = ("T", "U", "V")
ALL_KEYS = tuple(SOURCES)
COLS = ("a", "b", "c", "id")


@functools.lru_cache(maxsize=None)
def col(keys=ALL_KEYS, names=COLS):
    return st.tuples(st.just("col"), st.sampled_from(keys), st.sampled_from(names)).map(list)


@functools.lru_cache(maxsize=None)
def raw_value():
    return st.one_of(
        st.integers(-5, 20), st.sampled_from(["v1", "v2", "it's", ""]), st.sampled_from([1.5, -2.25]),
        st.booleans(), st.none(),
    ).map(lambda v: ["raw", v])


@functools.lru_cache(maxsize=None)
def num_value():
    return st.integers(-5, 20).map(lambda v: ["raw", v])


@functools.lru_cache(maxsize=None)
def term(keys=ALL_KEYS, max_leaves=6):
    leaf = st.one_of(col(keys), col(keys), num_value().map(lambda r: ["vw", r]))

    def extend(ch):
        return st.one_of(
            st.tuples(st.sampled_from(("add", "sub", "mul", "div")), ch, st.one_of(ch, num_value())).map(list),
            st.tuples(st.just("neg"), ch).map(list),
            st.tuples(st.just("cfn"), st.sampled_from(["ABS", "LENGTH", "UPPER"]), st.tuples(ch).map(list)).map(list),
            st.tuples(st.just("cfn"), st.just("COALESCE"), st.tuples(ch, st.one_of(ch, raw_value())).map(list)).map(list),
            st.tuples(st.just("fn"), st.sampled_from(["Sum", "Max", "Min", "Avg", "Count"]), st.tuples(ch).map(list)).map(list),
            st.tuples(st.just("case"), st.lists(st.tuples(crit_leaf(keys), st.one_of(ch, raw_value())).map(list), min_size=1, max_size=2),
                      st.one_of(st.none(), ch, raw_value())).map(list),
        )

    return st.recursive(leaf, extend, max_leaves=max_leaves)


@functools.lru_cache(maxsize=None)
def crit_leaf(keys=ALL_KEYS):
    c = col(keys)
    return st.one_of(
        st.tuples(st.sampled_from(("eq", "ne", "gt", "ge", "lt", "le")), c, st.one_of(c, raw_value().filter(lambda r: r[1] is not None))).map(list),
        st.tuples(st.just("isnull"), c).map(list),
        st.tuples(st.just("notnull"), c).map(list),
        st.tuples(st.sampled_from(("in", "notin")), c, st.lists(raw_value(), min_size=1, max_size=3)).map(list),
        st.tuples(st.just("between"), c, num_value(), num_value()).map(list),
        st.tuples(st.sampled_from(("like", "not_like")), c, st.sampled_from(["a%", "%b"]).map(lambda v: ["raw", v])).map(list),
    )


@functools.lru_cache(maxsize=None)
def crit(keys=ALL_KEYS, max_leaves=4):
    def extend(ch):
        return st.one_of(
            st.tuples(st.sampled_from(("and", "or")), ch, ch).map(list),
            st.tuples(st.just("not"), ch).map(list),
        )

    return st.recursive(crit_leaf(keys), extend, max_leaves=max_leaves)


def aliased(strategy, aliases=("al1", "al2", "al3")):
    return st.one_of(strategy, st.tuples(st.just("as"), strategy, st.sampled_from(aliases)).map(list))


@functools.lru_cache(maxsize=None)
def simple_select(cls="inherit", keys=PLAIN_KEYS, with_alias=None):
    """a small self-contained SELECT program (used as subquery / set-operation operand)"""

    @st.composite
    def build(draw):
        k = draw(st.sampled_from(keys))
        steps = [["from_", [["src", k]]]]
        sel = draw(st.lists(st.one_of(col((k,)), term((k,), 3)), min_size=1, max_size=2))
        steps.append(["select", sel])
        if draw(st.booleans()):
            steps.append(["where", [draw(crit((k,), 2))]])
        return {"cls": cls, "sources": {}, "steps": steps}

    return build()
