"""Shared Hypothesis strategies producing program data (see pbt/prog.py for the grammar)."""
from __future__ import annotations

import functools
import json

from hypothesis import strategies as st

# a fixed pool of table sources; every prog.Env instantiates fresh Table objects from these specs
SOURCES = {
    "T": ["tbl", "t1", None, None],
    "U": ["tbl", "t2", None, None],
    "V": ["tbl", "t3", None, None],
    "X": ["tbl", "t1", None, "x"],
    "Y": ["tbl", "t2", None, "y"],
    "S": ["tbl", "t4", "sch", None],
    "P": ["tbl", "t5", None, None, {"for": ["between", ["systime"], ["raw", "2020-01-01"], ["raw", "2020-02-01"]]}],
}
PLAIN_KEYS = ("T", "U", "V")
ALL_KEYS = tuple(SOURCES)
COLS = ("a", "b", "c", "id")


@functools.lru_cache(maxsize=None)
def col(keys=ALL_KEYS, names=COLS):
    return st.tuples(st.just("col"), st.sampled_from(keys), st.sampled_from(names)).map(list)


@functools.lru_cache(maxsize=None)
def raw_value():
    return st.one_of(
        st.integers(-5, 20), st.sampled_from(["v1", "v2", "it's", "", "a\\b"]), st.sampled_from([1.5, -2.25]),
        st.booleans(), st.none(),
    ).map(lambda v: ["raw", v])


@functools.lru_cache(maxsize=None)
def num_value():
    return st.integers(-5, 20).map(lambda v: ["raw", v])


@functools.lru_cache(maxsize=None)
def term(keys=ALL_KEYS, max_leaves=6):
    leaf = st.one_of(col(keys), col(keys), num_value().map(lambda r: ["vw", r]))

    def extend(ch):
        return st.one_of(
            st.tuples(st.sampled_from(("add", "sub", "mul", "div")), ch, st.one_of(ch, num_value())).map(list),
            st.tuples(st.just("neg"), ch).map(list),
            st.tuples(st.just("cfn"), st.sampled_from(["ABS", "LENGTH", "UPPER"]), st.tuples(ch).map(list)).map(list),
            st.tuples(st.just("cfn"), st.just("COALESCE"), st.tuples(ch, st.one_of(ch, raw_value())).map(list)).map(list),
            st.tuples(st.just("fn"), st.sampled_from(["Sum", "Max", "Min", "Avg", "Count"]), st.tuples(ch).map(list)).map(list),
            st.tuples(st.just("case"), st.lists(st.tuples(crit_leaf(keys), st.one_of(ch, raw_value())).map(list), min_size=1, max_size=2),
                      st.one_of(st.none(), ch, raw_value())).map(list),
        )

    return st.recursive(leaf, extend, max_leaves=max_leaves)


@functools.lru_cache(maxsize=None)
def crit_leaf(keys=ALL_KEYS):
    c = col(keys)
    return st.one_of(
        st.tuples(st.sampled_from(("eq", "ne", "gt", "ge", "lt", "le")), c, st.one_of(c, raw_value().filter(lambda r: r[1] is not None))).map(list),
        st.tuples(st.just("isnull"), c).map(list),
        st.tuples(st.just("notnull"), c).map(list),
        st.tuples(st.sampled_from(("in", "notin")), c, st.lists(raw_value(), min_size=1, max_size=3)).map(list),
        st.tuples(st.just("between"), c, num_value(), num_value()).map(list),
        st.tuples(st.sampled_from(("like", "not_like")), c, st.sampled_from(["a%", "%b"]).map(lambda v: ["raw", v])).map(list),
    )


@functools.lru_cache(maxsize=None)
def crit(keys=ALL_KEYS, max_leaves=4):
    def extend(ch):
        return st.one_of(
            st.tuples(st.sampled_from(("and", "or")), ch, ch).map(list),
            st.tuples(st.just("not"), ch).map(list),
        )

    return st.recursive(crit_leaf(keys), extend, max_leaves=max_leaves)


def aliased(strategy, aliases=("al1", "al2", "al3")):
    return st.one_of(strategy, st.tuples(st.just("as"), strategy, st.sampled_from(aliases)).map(list))


@functools.lru_cache(maxsize=None)
def simple_select(cls="inherit", keys=PLAIN_KEYS, with_alias=None):
    """a small self-contained SELECT program (used as subquery / set-operation operand)"""

    @st.composite
    def build(draw):
        k = draw(st.sampled_from(keys))
        steps = [["from_", [["src", k]]]]
        sel = draw(st.lists(st.one_of(col((k,)), term((k,), 3)), min_size=1, max_size=2))
        steps.append(["select", sel])
        if draw(st.booleans()):
            steps.append(["where", [draw(crit((k,), 2))]])
        return {"cls": cls, "sources": {}, "steps": steps}

    return build()


# ------------------------------------------------------------------------------------------------------------------
# structured statement generator (shared by C04, C07, C08, C10, C11, C13)


class Markers:
    """issues unique marker values so an oracle can find 'that value' again"""

    def __init__(self):
        self.n = 0
        self.issued = []  # (node, python-ish description)

    def next(self):
        self.n += 1
        return self.n


VALUE_KINDS = ("int", "str", "float", "decimal", "bool", "date", "datetime", "time", "uuid", "dict", "enum", "star", "vwnp", "negint", "list")


def marker_value(draw, mk, kinds=VALUE_KINDS):
    """-> value node carrying a unique marker (where the kind allows one)"""
    k = draw(st.sampled_from(kinds))
    n = mk.next()
    if k == "int":
        node = ["raw", 900000 + n]
    elif k == "negint":
        node = ["raw", -(900000 + n)]
    elif k == "str":
        node = ["raw", "v%d" % n]
    elif k == "float":
        node = ["raw", 900000 + n + 0.5]
    elif k == "decimal":
        node = ["pyv", "decimal", "%d.25" % (900000 + n)]
    elif k == "bool":
        node = ["raw", bool(n % 2)]
    elif k == "date":
        node = ["pyv", "date", "2%03d-01-02" % (n % 1000)]
    elif k == "datetime":
        node = ["pyv", "datetime", "2%03d-01-02T03:04:05" % (n % 1000)]
    elif k == "time":
        node = ["pyv", "time", "03:04:05.%06d" % n]
    elif k == "uuid":
        node = ["pyv", "uuid", "00000000-0000-0000-0000-%012d" % n]
    elif k == "dict":
        node = ["raw", {"k%d" % n: 900000 + n}]
    elif k == "list":
        node = ["raw", [900000 + n, "l%d" % n]]
    elif k == "enum":
        node = ["enum", "Order", "asc" if n % 2 else "desc"]
    elif k == "star":
        node = ["vw", ["raw", "*"]]
    elif k == "vwnp":
        node = ["vwnp", ["raw", "np%d" % n]]
    else:
        raise AssertionError(k)
    mk.issued.append((k, node))
    return node


class StmtGen:
    """draw-driven builder of one statement program; subclasses / options steer what is generated"""

    def __init__(self, draw, cls, mk=None, value_kinds=("int", "str", "float", "negint"), depth=2, names=None, aliases=True, features=None, alias_cols=False):
        self.draw = draw
        self.cls = cls
        self.mk = mk or Markers()
        self.value_kinds = value_kinds
        self.depth = depth
        self.aliases = aliases
        self.features = features  # None = everything
        self.alias_cols = alias_cols  # also alias terms outside the select list (WHERE / GROUP BY / HAVING / ORDER BY / ON operands)
        self.nalias = 0

    # -- helpers
    def d(self, s):
        return self.draw(s)

    def flag(self, name=None, p=0.5):
        if self.features is not None and name is not None and name not in self.features:
            return False
        return self.d(st.integers(0, 99)) < int(p * 100)

    def value(self):
        return marker_value(self.draw, self.mk, self.value_kinds)

    def alias(self, prefix="al"):
        self.nalias += 1
        return "%s%d" % (prefix, self.nalias)

    def col(self, keys):
        c = ["col", self.d(st.sampled_from(keys)), self.d(st.sampled_from(COLS))]
        if self.alias_cols and self.d(st.integers(0, 9)) < 3:
            return ["as", c, self.alias("ca")]
        return c

    def term(self, keys, depth=2):
        c = self.d(st.integers(0, 9))
        if depth <= 0 or c < 4:
            return self.col(keys)
        if c == 4:
            v = self.value()
            return ["vw", v] if v[0] in ("raw", "pyv", "enum") else v
        if c == 5:
            return [self.d(st.sampled_from(("add", "sub", "mul"))), self.term(keys, depth - 1), self.d(st.booleans()) and self.value() or self.term(keys, depth - 1)]
        if c == 6:
            return ["fn", self.d(st.sampled_from(["Coalesce", "NullIf"])), [self.term(keys, depth - 1), self.value()]]
        if c == 7:
            return ["case", [[self.crit(keys, depth - 1), self.value()]], self.d(st.booleans()) and self.value() or None]
        if c == 8:
            return ["fn", self.d(st.sampled_from(["Upper", "Abs", "Length"])), [self.term(keys, depth - 1)]]
        return ["cfn", "FN1", [self.term(keys, depth - 1), self.value()]]

    def agg(self, keys):
        return ["fn", self.d(st.sampled_from(["Sum", "Max", "Min", "Count", "Avg"])), [self.col(keys)]]

    def crit(self, keys, depth=2):
        c = self.d(st.integers(0, 11))
        if depth > 0 and c >= 9:
            return [self.d(st.sampled_from(("and", "or"))), self.crit(keys, depth - 1), self.crit(keys, depth - 1)]
        if depth > 0 and c == 8:
            return ["not", self.crit(keys, depth - 1)]
        left = self.col(keys)
        if c in (0, 1, 2):
            return [self.d(st.sampled_from(("eq", "ne", "gt", "ge", "lt", "le"))), left, self.value()]
        if c == 3:
            return ["eq", left, self.col(keys)]
        if c == 4:
            return [self.d(st.sampled_from(("in", "notin"))), left, [self.value() for _ in range(self.d(st.integers(1, 3)))]]
        if c == 5:
            return ["between", left, self.value(), self.value()]
        if c == 6:
            return [self.d(st.sampled_from(("like", "not_like"))), left, ["raw", "p%d%%" % self.mk.next()]]
        if c == 7 and self.depth > 0 and self.flag("subquery"):
            sub = self.subselect()
            return ["in", left, ["q", sub]]
        return [self.d(st.sampled_from(("isnull", "notnull"))), left]

    def subselect(self, ncols=1, alias_terms=False):
        g = StmtGen(self.draw, "inherit", self.mk, self.value_kinds, self.depth - 1, aliases=self.aliases, features=self.features, alias_cols=self.alias_cols)
        g.nalias = self.nalias + 100
        return g.select(ncols=ncols, alias_terms=alias_terms)

    def src_key(self):
        return self.d(st.sampled_from(ALL_KEYS[:6]))

    # -- statements
    def select(self, ncols=None, alias_terms=True):
        steps = []
        keys = []
        if self.flag("cte", 0.15) and self.depth > 0:
            steps.append(["with_", [["q", self.subselect()], ["py", "cte%d" % self.mk.next()]]])
        k0 = self.src_key()
        use_sub_from = self.depth > 0 and self.flag("subquery", 0.15)
        if use_sub_from:
            steps.append(["from_", [["q", self.subselect(ncols=2)]]])
            keys = []
        else:
            steps.append(["from_", [["src", k0]]])
            keys = [k0]
        njoin = self.d(st.integers(0, 2)) if self.flag("join", 0.5) and keys else 0
        for _ in range(njoin):
            kj = self.d(st.sampled_from([k for k in ALL_KEYS[:6] if SOURCES[k][1] not in [SOURCES[x][1] for x in keys] or SOURCES[k][3]] or ["V"]))
            if kj in keys:
                continue
            how = self.d(st.sampled_from(["inner", "left", "right", "outer", "cross"]))
            on = ["eq", ["col", keys[0], self.d(st.sampled_from(COLS))], ["col", kj, self.d(st.sampled_from(COLS))]]
            if self.d(st.booleans()):
                on = ["and", on, [self.d(st.sampled_from(("gt", "lt"))), ["col", kj, "b"], self.value()]]
            steps.append(["join", [["src", kj], ["enum", "JoinType", how]], {}, ["on", [on]] if how != "cross" else ["cross", []]])
            keys.append(kj)
        tk = tuple(keys) if keys else ()
        n = ncols if ncols is not None else self.d(st.integers(1, 3))
        sel = []
        grouped = self.flag("groupby", 0.3) and bool(tk)
        for i in range(n):
            if not tk:
                v = self.value()
                t = (["vw", v] if v[0] in ("raw", "pyv", "enum") else v) if i else ["star", None]
                if not i:
                    sel.append(t)
                    continue
            elif grouped and i > 0:
                t = self.agg(tk)
            else:
                t = self.term(tk, 2) if self.d(st.booleans()) else self.col(tk)
            if alias_terms and self.aliases and self.d(st.booleans()):
                t = ["as", t, self.alias()]
            sel.append(t)
        steps.append(["select", sel])
        if self.flag("distinct", 0.15):
            steps.append(["distinct", []])
        if tk and self.flag("where", 0.7):
            steps.append(["where", [self.crit(tk, 2)]])
        if grouped:
            first = sel[0]
            if '"col"' not in json.dumps(first):
                first = sel[0] = self.col(tk)  # sel is the very list held by the select step
            gb = first[1] if first[0] == "as" else first
            steps.append(["groupby", [first if first[0] == "as" and self.d(st.booleans()) else gb]])
            if self.flag("having", 0.5):
                steps.append(["having", [[self.d(st.sampled_from(("gt", "lt"))), self.agg(tk), self.value()]]])
        if tk and self.flag("orderby", 0.4):
            ob = self.d(st.sampled_from(sel)) if self.d(st.booleans()) else self.col(tk)
            if ob[0] in ("star",) or '"col"' not in json.dumps(ob):
                ob = self.col(tk)  # a bare literal in ORDER BY is a column position in SQL, not a value
            steps.append(["orderby", [ob], self.d(st.sampled_from([{}, {"order": ["enum", "Order", "desc"]}]))])
        if self.flag("limit", 0.3):
            steps.append(["limit", [["raw", 900000 + self.mk.next()]]])
            self.mk.issued.append(("int", steps[-1][1][0]))
        if self.flag("offset", 0.2):
            steps.append(["offset", [["raw", 900000 + self.mk.next()]]])
            self.mk.issued.append(("int", steps[-1][1][0]))
        if self.depth > 0 and self.flag("setop", 0.12):
            other = StmtGen(self.draw, "inherit", self.mk, self.value_kinds, 0, aliases=False, features=self.features).select(ncols=n, alias_terms=False)
            steps.append([self.d(st.sampled_from(["union", "union_all", "intersect", "except_of"])), [["q", other]]])
            # clauses of the set operation itself
            if tk and self.flag("setop_tail", 0.5):
                # a compound ORDER BY names result columns: aliased items, or plain columns of the first operand's select list
                aliased = [t for t in sel if t[0] in ("as", "col")]
                if aliased and self.d(st.booleans()):
                    steps.append(["orderby", [self.d(st.sampled_from(aliased))]])
                if self.d(st.booleans()):
                    steps.append(["limit", [["raw", 900000 + self.mk.next()]]])
                    self.mk.issued.append(("int", steps[-1][1][0]))
                if self.d(st.booleans()):
                    steps.append(["offset", [["raw", 900000 + self.mk.next()]]])
                    self.mk.issued.append(("int", steps[-1][1][0]))
        return {"cls": self.cls, "sources": {}, "steps": steps}

    def cte_prefix(self):
        """WITH in front of a data-changing statement (the builders accept with_() for every statement kind)"""
        if self.depth > 0 and self.flag("cte", 0.12):
            return [["with_", [["q", self.subselect()], ["py", "cte%d" % self.mk.next()]]]]
        return []

    def insert(self):
        k = self.d(st.sampled_from(PLAIN_KEYS))
        steps = self.cte_prefix() + [["into", [["src", k]]]]
        ncol = self.d(st.integers(1, 3))
        if self.d(st.booleans()):
            steps.append(["columns", [["py", c] for c in COLS[:ncol]]])
        if self.depth > 0 and self.flag("insert_select", 0.2):
            sub = StmtGen(self.draw, "inherit", self.mk, self.value_kinds, 0, aliases=self.aliases, features=self.features).select(ncols=ncol)
            steps += [s for s in sub["steps"] if s[0] not in ("with_", "union", "union_all", "intersect", "except_of")]
        else:
            nrows = self.d(st.integers(1, 2))
            if nrows == 1:
                steps.append([self.d(st.sampled_from(["insert", "insert", "replace"])), [self.value() for _ in range(ncol)]])
            else:
                steps.append(["insert", [["pytuple", [self.value() for _ in range(ncol)]] for _ in range(nrows)]])
            if self.flag("upsert", 0.4):
                steps.append(["on_conflict", [["py", "id"]]])
                if self.d(st.booleans()):
                    steps.append(["do_nothing", []])
                else:
                    steps.append(["do_update", [["py", "a"], self.value()]])
                    if self.d(st.booleans()):
                        steps.append(["do_update", [["py", "b"]]])
                    if self.d(st.booleans()):
                        steps.append(["where", [["eq", ["col", k, "c"], self.value()]]])
        if self.cls == "postgresql" and self.flag("returning", 0.3):
            steps.append(["returning", [["py", "id"]]])
        return {"cls": self.cls, "sources": {}, "steps": steps}

    def update(self):
        k = self.d(st.sampled_from(PLAIN_KEYS))
        steps = self.cte_prefix() + [["update", [["src", k]]]]
        for _ in range(self.d(st.integers(1, 2))):
            steps.append(["set", [self.d(st.sampled_from([["py", "a"], ["py", "b"], ["col", k, "c"]])), self.d(st.booleans()) and self.value() or ["add", ["col", k, "b"], self.value()]]])
        if self.flag("where", 0.7):
            steps.append(["where", [self.crit((k,), 1)]])
        if self.cls == "mysql" and self.flag("limit", 0.3):
            steps.append(["orderby", [["col", k, "id"]]])
            steps.append(["limit", [["raw", 900000 + self.mk.next()]]])
            self.mk.issued.append(("int", steps[-1][1][0]))
        if self.cls == "postgresql" and self.flag("returning", 0.3):
            steps.append(["returning", [["py", "id"]]])
        return {"cls": self.cls, "sources": {}, "steps": steps}

    def delete(self):
        k = self.d(st.sampled_from(PLAIN_KEYS))
        steps = self.cte_prefix() + [["from_", [["src", k]]], ["delete", []]]
        if self.flag("where", 0.8):
            steps.append(["where", [self.crit((k,), 1)]])
        if self.cls == "postgresql" and self.flag("returning", 0.3):
            steps.append(["returning", [["py", "id"]]])
        return {"cls": self.cls, "sources": {}, "steps": steps}


@st.composite
def statement(draw, cls=None, kinds=("select", "select", "select", "insert", "update", "delete"), value_kinds=("int", "str", "float", "negint"), depth=2, features=None, aliases=True):
    c = cls or draw(st.sampled_from(("generic", "sqlite", "mysql", "postgresql", "mssql", "oracle")))
    g = StmtGen(draw, c, None, value_kinds, depth, aliases=aliases, features=features)
    kind = draw(st.sampled_from(kinds))
    p = getattr(g, kind)()
    p["sources"] = dict(SOURCES)
    p["kind"] = kind
    p["markers"] = [[k, n] for k, n in g.mk.issued]
    return p
