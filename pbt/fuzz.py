"""Coverage-guided fuzzing (Atheris / libFuzzer) of three byte-level targets, used by the thorough tier of C18, C05 and C06.

The oracle runs inside the target: each input is decoded into a structured case by a FuzzedDataProvider, the property's own
check function is applied, and every violation is appended (as one JSON line) to an output file - the target never raises, so
one campaign keeps going behind a finding.  The library keeps no global state, and every case builds fresh objects, so there is
nothing to reset between iterations.

Run as a subprocess:  python -m pbt.fuzz <target> <out-file> <runs> <seed> <corpus-dir>
"""
from __future__ import annotations

import json
import os
import subprocess
import sys
import tempfile

HERE = os.path.dirname(os.path.dirname(os.path.abspath(__file__)))
DEPS = os.path.join(HERE, ".deps")


def ensure_atheris() -> bool:
    """atheris is installed offline into /verif/.deps on first use; False if that is not possible"""
    env = dict(os.environ, PYTHONPATH=DEPS + os.pathsep + os.environ.get("PYTHONPATH", ""))
    if subprocess.run([sys.executable, "-c", "import atheris"], env=env, capture_output=True).returncode == 0:
        return True
    subprocess.run([sys.executable, "-m", "pip", "install", "-q", "--no-index", "--find-links", "/opt/veriftools/wheels", "--target", DEPS, "atheris"], capture_output=True)
    return subprocess.run([sys.executable, "-c", "import atheris"], env=env, capture_output=True).returncode == 0


def campaign(target: str, runs: int, seed: int, seeds=()):
    """-> (list of {"sig","case","detail"}, executions requested, note)"""
    if not ensure_atheris():
        return [], 0, "atheris could not be imported or installed offline; fuzz layer skipped"
    tmp = tempfile.mkdtemp(prefix="verif-fuzz-")
    try:
        out = os.path.join(tmp, "violations.jsonl")
        corpus = os.path.join(tmp, "corpus")
        os.makedirs(corpus)
        for i, s in enumerate(seeds):
            with open(os.path.join(corpus, "seed%d" % i), "wb") as f:
                f.write(s)
        env = dict(os.environ, PYTHONPATH=DEPS + os.pathsep + HERE + os.pathsep + os.environ.get("PYTHONPATH", ""))
        p = subprocess.run([sys.executable, "-m", "pbt.fuzz", target, out, str(runs), str(seed), corpus], cwd=HERE, env=env, capture_output=True, text=True)
        found = []
        if os.path.exists(out):
            for line in open(out):
                try:
                    found.append(json.loads(line))
                except ValueError:
                    pass
        note = "libFuzzer exit %d" % p.returncode
        if p.returncode not in (0,):
            note += ": " + (p.stderr or "")[-300:]
        return found, runs, note
    finally:
        import shutil

        shutil.rmtree(tmp, ignore_errors=True)


# ---- decoders: bytes -> structured case -------------------------------------------------------------------------------------


def decode_c18(fdp):
    from pbt.props import c18

    ctx = c18.CTX_NAMES[fdp.ConsumeIntInRange(0, 5)]
    mode = fdp.ConsumeIntInRange(0, 9)
    if mode == 0:
        v = fdp.ConsumeIntInRange(-10 ** 6, 10 ** 6) or 1
        return {"comp": {"quarters": v}, "ctx": ctx}
    if mode == 1:
        v = fdp.ConsumeIntInRange(-10 ** 6, 10 ** 6) or 1
        return {"comp": {"weeks": v}, "ctx": ctx}
    comp = {}
    for u in c18.UNITS:
        kind = fdp.ConsumeIntInRange(0, 5)
        if kind == 0:
            continue
        if kind == 1:
            comp[u] = fdp.ConsumeIntInRange(1, 9)
        elif kind == 2:
            comp[u] = fdp.ConsumeIntInRange(1, 999) * 10
        elif kind == 3:
            comp[u] = fdp.ConsumeIntInRange(1, 10 ** 12)
        elif kind == 4:
            comp[u] = [10, 100, 1000, 101, 1001, 60, 59, 999999][fdp.ConsumeIntInRange(0, 7)]
        else:
            comp[u] = fdp.ConsumeIntInRange(1, 120)
    if comp and mode >= 7:
        first = next(u for u in c18.UNITS if u in comp)
        comp[first] = -comp[first]
    return {"comp": comp, "ctx": ctx}


def decode_c05(fdp):
    from pbt.props import c05

    cls = c05.CTXS[fdp.ConsumeIntInRange(0, 5)]
    pos = c05.POSITIONS[fdp.ConsumeIntInRange(0, len(c05.POSITIONS) - 1)]
    kind = fdp.ConsumeIntInRange(0, 6)
    if kind <= 2:
        s = fdp.ConsumeUnicodeNoSurrogates(fdp.ConsumeIntInRange(0, 12))
        v = ["raw", s]
    elif kind == 3:
        v = ["raw", fdp.ConsumeIntInRange(-10 ** 18, 10 ** 18)]
    elif kind == 4:
        f = fdp.ConsumeRegularFloat()
        v = ["raw", f]
    elif kind == 5:
        n = fdp.ConsumeIntInRange(0, 3)
        d = {}
        for _ in range(n):
            d[fdp.ConsumeUnicodeNoSurrogates(fdp.ConsumeIntInRange(0, 5))] = fdp.ConsumeUnicodeNoSurrogates(fdp.ConsumeIntInRange(0, 5)) if fdp.ConsumeBool() else fdp.ConsumeIntInRange(-3, 3)
        v = ["raw", d]
    else:
        v = ["raw", fdp.ConsumeBool()]
    return {"cls": cls, "pos": pos, "value": v}


def decode_c06(fdp):
    from pbt.props import c06

    ctx = c06.CTXS[fdp.ConsumeIntInRange(0, 5)]

    def leaf():
        k = fdp.ConsumeIntInRange(0, 5)
        if k <= 2:
            return c06.C(fdp.ConsumeIntInRange(0, 5))
        if k == 3:
            return ["vw", ["raw", [1, 2, 7, 0, -1, -3, 10][fdp.ConsumeIntInRange(0, 6)]]]
        if k == 4:
            return ["vw", ["raw", [-1.5, 2.5][fdp.ConsumeIntInRange(0, 1)]]]
        return ["null"]

    def tree(depth):
        if depth <= 0 or fdp.remaining_bytes() < 2 or fdp.ConsumeIntInRange(0, 3) == 0:
            return leaf()
        k = fdp.ConsumeIntInRange(0, 9)
        if k <= 2:
            return [c06.ARITH[fdp.ConsumeIntInRange(0, 3)], tree(depth - 1), tree(depth - 1)]
        if k == 3:
            return [c06.CMPS[fdp.ConsumeIntInRange(0, 5)], tree(depth - 1), tree(depth - 1)]
        if k == 4:
            left = tree(depth - 1)
            if not c06.is_crit(left):
                left = ["eq", left, c06.C(1)]
            return [c06.BOOLS[fdp.ConsumeIntInRange(0, 2)], left, tree(depth - 1)]
        if k == 5:
            return [("neg", "not", "isnull")[fdp.ConsumeIntInRange(0, 2)], tree(depth - 1)]
        if k == 6:
            return [("in", "notin")[fdp.ConsumeIntInRange(0, 1)], tree(depth - 1), [tree(depth - 1) for _ in range(fdp.ConsumeIntInRange(1, 2))]]
        if k == 7:
            return ["between", tree(depth - 1), tree(depth - 1), tree(depth - 1)]
        if k == 8:
            return ["cfn", "COALESCE", [tree(depth - 1), tree(depth - 1)]]
        return ["case", [[tree(depth - 1), tree(depth - 1)]], tree(depth - 1) if fdp.ConsumeBool() else None]

    t = tree(5)
    if not c06.children(t):
        t = ["add", t, c06.C(2)]
    return {"expr": t, "ctx": ctx}


TARGETS = {"c18": ("pbt.props.c18", decode_c18), "c05": ("pbt.props.c05", decode_c05), "c06": ("pbt.props.c06", decode_c06)}


def main(argv):
    target, out, runs, seed, corpus = argv[0], argv[1], int(argv[2]), int(argv[3]), argv[4]
    import atheris

    sys.path.insert(0, HERE)
    from pbt import core

    repo = os.path.abspath(core.REPO_DIR)
    sys.path.insert(0, repo)
    with atheris.instrument_imports(include=["pypika_tortoise"]):
        import pypika_tortoise  # noqa
        from pypika_tortoise import analytics, functions  # noqa
        from pypika_tortoise.dialects import mysql, postgresql, sqlite, mssql, oracle  # noqa
    core.setup_repo_path()
    import importlib

    modname, decode = TARGETS[target]
    mod = importlib.import_module(modname)
    valid = getattr(mod, "valid_case", lambda c: True)
    seen = set()

    def test_one(data):
        fdp = atheris.FuzzedDataProvider(data)
        try:
            case = decode(fdp)
            if not valid(case):
                return
            res = mod.check_case(case)
        except core.HarnessError:
            raise
        except Exception:
            return
        for sig, detail in res:
            if sig not in seen:
                seen.add(sig)
                with open(out, "a") as f:
                    f.write(json.dumps({"sig": sig, "case": case, "detail": detail}, default=repr) + "\n")

    atheris.Setup([sys.argv[0], "-runs=%d" % runs, "-seed=%d" % (seed or 1), "-max_len=256", "-print_final_stats=0", corpus], test_one)
    atheris.Fuzz()


if __name__ == "__main__":
    main(sys.argv[1:])
