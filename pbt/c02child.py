"""Child interpreter for C02(c): builds the programs read from stdin and prints their renderings as JSON.
Started by the parent with a different PYTHONHASHSEED each time."""
import json
import os
import sys

sys.path.insert(0, os.path.dirname(os.path.dirname(os.path.abspath(__file__))))
from pbt import core  # noqa: E402

core.setup_repo_path()
from pbt import hist, snap  # noqa: E402


def main():
    roots = json.load(sys.stdin)
    out = []
    for r in roots:
        try:
            o = hist.build_root(r)
            s = snap.render_snapshot(o)
            try:
                s["hash_stable"] = repr(hash(o) == hash(o))
            except Exception as e:
                s["hash_stable"] = "EXC:" + type(e).__name__
        except Exception as e:
            s = {"build": "EXC:" + type(e).__name__}
        out.append(s)
    json.dump(out, sys.stdout)


if __name__ == "__main__":
    main()
