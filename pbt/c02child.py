"""Child interpreter for C02(c): builds the programs read from stdin and prints their renderings as JSON.
Started by the parent with a different PYTHONHASHSEED each time."""
import json
import os
import sys

sys.path.insert(0, os.path.dirname(os.path.dirname(os.path.abspath(__file__))))
from pbt import core  # noqa: E402

core.setup_repo_path()
from pbt import hist, prog, snap  # noqa: E402


def main():
    roots = json.load(sys.stdin)
    out = []
    # C02_CTX_ORDER: the order in which this interpreter renders under the six class contexts ("r" reversed, "k" rotated by k);
    # a pure rendering function gives every context the same text whatever was rendered before in the process
    order = os.environ.get("C02_CTX_ORDER", "0")
    ctxs = list(snap.CTXS)
    ctxs = ctxs[::-1] if order == "r" else ctxs[int(order) % len(ctxs):] + ctxs[:int(order) % len(ctxs)]
    for r in roots:
        try:
            o = hist.build_root(r)
            if order != "0":
                try:
                    o.get_sql(prog.sql_context(ctxs[0]))  # this interpreter's first rendering of the object is not str()
                except Exception:
                    pass
            s = snap.render_snapshot(o, contexts=ctxs)
            try:
                s["hash_stable"] = repr(hash(o) == hash(o))
            except Exception as e:
                s["hash_stable"] = "EXC:" + type(e).__name__
        except Exception as e:
            s = {"build": "EXC:" + type(e).__name__}
        out.append(s)
    json.dump(out, sys.stdout)


if __name__ == "__main__":
    main()
