"""Histories of builder calls as data (shared by C01 and C15).

history := {"ops": [op...]}
op      := ["new", family, root-program]            creates live object #n from a root program
         | ["call", recv-index, step]               applies one builder step to live object #recv-index -> live object #n
Arguments of every op are built in a fresh prog.Env, so no Table/subquery instance is ever shared between two calls
(the only side effect the property allows - auto-aliasing of an argument - therefore lands on an object nobody else sees).
A step that raises is a no-op for the chain (it produces no object); receivers must be unaffected by it all the same.
"""
from __future__ import annotations

import functools

from hypothesis import strategies as st

from pbt import gen, prog
from pbt.core import HarnessError

QB_CLASSES = prog.CLS_NAMES
K = gen.ALL_KEYS
PK = gen.PLAIN_KEYS


def py(v):
    return ["py", v]


def S(*alts):
    return st.one_of(*alts)


class NamedStep:
    """a step strategy that remembers its method name (so the generator can re-address a non-empty clause)"""

    def __init__(self, name, strategy):
        self.name = name
        self.strategy = strategy


def step(m, args=st.just([]), kw=st.just({}), then=st.none()):
    return NamedStep(m, st.tuples(st.just(m), args, kw, then).map(list))


def one_of_steps(steps):
    return st.one_of(*[s.strategy for s in steps])


def args(*ss):
    return st.tuples(*ss).map(list)


def src(keys=K):
    return st.sampled_from(keys).map(lambda k: ["src", k])


def fresh_tbl():
    return st.sampled_from(["n1", "n2"]).map(lambda n: ["src", "N:" + n])


ORDER = st.one_of(st.just({}), st.sampled_from(["asc", "desc"]).map(lambda o: {"order": ["enum", "Order", o]}))
SUBQ = gen.simple_select().map(lambda p: ["q", p])
EQ_ON = st.tuples(st.just("eq"), gen.col(K), gen.col(K)).map(list)


@functools.lru_cache(maxsize=None)
def qb_menu(cls):
    term = gen.aliased(gen.term(K, 4))
    col = gen.aliased(gen.col(K))
    m = [
        step("from_", args(S(src(), SUBQ))),
        step("select", st.lists(S(term, col, st.sampled_from(["a", "b", "*"]).map(py), gen.raw_value(),
                                  st.sampled_from(K).map(lambda k: ["star", k])), min_size=1, max_size=3)),
        step("where", args(gen.crit(K, 3))),
        step("prewhere", args(gen.crit(K, 2))),
        step("having", args(gen.crit(K, 2))),
        step("groupby", st.lists(S(col, term, st.sampled_from(["a", "b"]).map(py)), min_size=1, max_size=2)),
        step("orderby", st.lists(S(col, term), min_size=1, max_size=2), ORDER),
        step("join", args(S(src(), SUBQ), st.sampled_from(["inner", "left", "cross", "right", "outer"]).map(lambda h: ["enum", "JoinType", h])), st.just({}),
             one_of_steps([step("on", args(EQ_ON)), step("on", args(gen.crit(K, 2))), step("using", st.lists(st.sampled_from(["a", "id"]).map(py), min_size=1, max_size=2)),
                           step("cross"), step("on_field", st.lists(st.sampled_from(["a", "id"]).map(py), min_size=1, max_size=2))])),
        step("limit", args(st.integers(0, 9).map(py))),
        step("offset", args(st.integers(0, 9).map(py))),
        step("slice", args(st.tuples(st.just("slice"), st.one_of(st.none(), st.integers(0, 5)), st.one_of(st.none(), st.integers(1, 9))).map(list))),
        step("distinct"), step("with_totals"), step("delete"), step("do_nothing"),
        step("for_update", st.just([]), S(st.just({}), st.just({"nowait": py(True)}), st.just({"skip_locked": py(True)}),
                                         st.lists(st.sampled_from(["t1", "t2", "t3"]), min_size=1, max_size=2, unique=True).map(lambda l: {"of": ["pytuple", [py(x) for x in l]]}),
                                         st.lists(st.sampled_from(["t1", "t2", "t3"]), min_size=1, max_size=2, unique=True).map(lambda l: {"of": ["pytuple", [py(x) for x in l]], "nowait": py(True)}),
                                         st.lists(st.sampled_from(["t1", "t2", "t3"]), min_size=1, max_size=3, unique=True).map(lambda l: {"of": ["pytuple", [py(x) for x in l]]}))),
        step("force_index", st.lists(S(st.sampled_from(["ix1", "ix2"]).map(py), st.sampled_from(["ix3"]).map(lambda n: ["index", n])), min_size=1, max_size=2)),
        step("use_index", st.lists(S(st.sampled_from(["ux1", "ux2"]).map(py), st.sampled_from(["ux3"]).map(lambda n: ["index", n])), min_size=1, max_size=2)),
        step("rollup", st.lists(S(col, st.lists(gen.col(K), min_size=1, max_size=2).map(lambda l: ["pylist", l])), min_size=0, max_size=2),
             S(st.just({}), st.just({}), st.just({"vendor": py("mysql")}))),
        step("with_", args(SUBQ, st.sampled_from(["cte1", "cte2"]).map(py))),
        step("into", args(src())), step("update", args(src())),
        step("columns", st.lists(S(st.sampled_from(["a", "b", "c"]).map(py), gen.col(K)), min_size=1, max_size=3)),
        step("insert", st.lists(gen.raw_value(), min_size=1, max_size=3)),
        step("insert", args(st.lists(gen.raw_value(), min_size=1, max_size=2).map(lambda l: ["pytuple", l]),
                            st.lists(gen.raw_value(), min_size=1, max_size=2).map(lambda l: ["pytuple", l]))),
        step("replace", st.lists(gen.raw_value(), min_size=1, max_size=3)),
        step("set", args(S(st.sampled_from(["a", "b"]).map(py), gen.col(K)), S(gen.raw_value(), gen.term(K, 3)))),
        step("on_conflict", st.lists(S(st.sampled_from(["id", "a"]).map(py), gen.col(K)), min_size=0, max_size=2)),
        step("do_update", args(S(st.sampled_from(["a", "b"]).map(py), gen.col(K)), S(st.just(py(None)), gen.raw_value(), gen.term(K, 2)))),
        step("do_update", args(st.sampled_from(["a", "b"]).map(py))),
        step("union", args(SUBQ)), step("union_all", args(SUBQ)), step("intersect", args(SUBQ)), step("except_of", args(SUBQ)), step("minus", args(SUBQ)),
        # the table to replace is usually the one the roots are built on, so that the call has something to do
        step("replace_table", args(src(("T", "T", "T") + K), src())),
        step("replace_table", args(src(("T",)), src(("U", "V", "Y")))),
        step("replace_table", args(src(("T",)), src(("U", "V", "Y")))),
        step("as_", args(st.sampled_from(["qa", "qb"]).map(py))),
    ]
    # the methods only one dialect class has are few among ~45 shared ones: weighted so that short histories reach them
    if cls == "mysql":
        m += [step("modifier", args(st.sampled_from(["SQL_CALC_FOUND_ROWS", "HIGH_PRIORITY", "SQL_NO_CACHE"]).map(py)))] * 4
    if cls == "mssql":
        m += [step("top", args(st.integers(0, 9).map(py)))] * 2
        m += [step("fetch_next", args(st.integers(0, 9).map(py)))] * 2
    if cls == "postgresql":
        m.append(step("distinct_on", st.lists(S(st.sampled_from(["a", "b"]).map(py), gen.col(K)), min_size=1, max_size=2)))
        m.append(step("returning", st.lists(S(st.sampled_from(["a", "id", "*"]).map(py), gen.col(K), gen.raw_value(),
                                               st.tuples(st.just("add"), gen.col(K), gen.num_value()).map(list)), min_size=1, max_size=2)))
    return m


@functools.lru_cache(maxsize=None)
def setop_menu():
    return [
        step("orderby", st.lists(S(gen.aliased(gen.col(K)), st.sampled_from(["a"]).map(py)), min_size=1, max_size=2), ORDER),
        step("limit", args(st.integers(0, 9).map(py))), step("offset", args(st.integers(0, 9).map(py))),
        step("union", args(SUBQ)), step("union_all", args(SUBQ)), step("intersect", args(SUBQ)), step("except_of", args(SUBQ)), step("minus", args(SUBQ)),
        step("as_", args(st.sampled_from(["sa"]).map(py))),
    ]


COLNAME = st.sampled_from(["c1", "c2", "c3", "c4"])
COLUMN = S(COLNAME.map(py), st.tuples(COLNAME, st.sampled_from(["INT", "VARCHAR(10)"])).map(lambda t: ["pytuple", [py(t[0]), py(t[1])]]),
           st.tuples(COLNAME, st.sampled_from(["INT", None]), st.sampled_from([None, True, False]), S(st.none(), gen.raw_value().filter(lambda r: r[1] is not None)))
           .map(lambda t: ["column", t[0], t[1], t[2], t[3]]))


@functools.lru_cache(maxsize=None)
def create_menu():
    return [
        step("create_table", args(S(st.sampled_from(["nt"]).map(py), src(PK)))),
        step("temporary"), step("unlogged"), step("with_system_versioning"), step("if_not_exists"),
        step("columns", st.lists(COLUMN, min_size=1, max_size=3)),
        step("period_for", args(st.sampled_from(["p1", "p2"]).map(py), COLNAME.map(py), COLNAME.map(py))),
        step("unique", st.lists(COLNAME.map(py), min_size=1, max_size=2)),
        step("primary_key", st.lists(COLNAME.map(py), min_size=1, max_size=2)),
        step("as_select", args(SUBQ)),
    ]


@functools.lru_cache(maxsize=None)
def drop_menu():
    return [step("drop_table", args(S(st.sampled_from(["nt"]).map(py), src(PK)))), step("if_exists")]


@functools.lru_cache(maxsize=None)
def load_menu():
    return [step("load", args(st.sampled_from(["/f1", "/f2"]).map(py))), step("into", args(S(st.sampled_from(["nt"]).map(py), src(PK))))]


@functools.lru_cache(maxsize=None)
def table_menu():
    return [
        step("as_", args(st.sampled_from(["ta", "tb"]).map(py))),
        step("for_", args(st.tuples(st.just("between"), st.just(["systime"]), st.just(["raw", "2020-01-01"]), st.just(["raw", "2020-02-01"])).map(list))),
        step("for_", args(st.tuples(st.just("as_of"), st.just(["systime"]), st.just(["raw", "2020-01-01"])).map(list))),
        step("for_portion", args(st.tuples(st.just("from_to"), st.just(["systime"]), st.just(["raw", "2020-01-01"]), st.just(["raw", "2020-02-01"])).map(list))),
    ]


@functools.lru_cache(maxsize=None)
def term_menu(family):
    m = [step("as_", args(st.sampled_from(["za", "zb"]).map(py))), step("replace_table", args(src(), src()))]
    if family == "case":
        m += [step("when", args(gen.crit(K, 2), S(gen.raw_value(), gen.term(K, 2)))), step("when", args(gen.crit(K, 2), S(gen.raw_value(), gen.term(K, 2)))),
              step("else_", args(S(gen.raw_value(), gen.term(K, 2))))]
    if family in ("agg", "analytic", "analytic_frame"):
        m += [step("filter", st.lists(gen.crit(K, 2), min_size=1, max_size=2)), step("filter", st.lists(gen.crit(K, 2), min_size=1, max_size=2))]
    if family == "agg":
        m += [step("distinct")]
    if family in ("analytic", "analytic_frame"):
        m += [step("over", st.lists(gen.col(K), min_size=0, max_size=2)), step("over", st.lists(gen.col(K), min_size=1, max_size=2)),
              step("orderby", st.lists(gen.col(K), min_size=1, max_size=2), ORDER), step("orderby", st.lists(gen.col(K), min_size=1, max_size=2), ORDER)]
    if family == "analytic_frame":
        edge = S(st.tuples(st.just("edge"), st.sampled_from(["Preceding", "Following"]), st.one_of(st.none(), st.integers(1, 5))).map(list), st.just(["currow"]))
        m += [step("rows", S(args(edge), args(edge, edge))), step("range", S(args(edge), args(edge, edge))), step("ignore_nulls")]
    if family == "contains":
        m += [step("negate")]
    return m


@functools.lru_cache(maxsize=None)
def join_menu():
    return [step("replace_table", args(src(), src()))]


FAMILIES = ["qb:" + c for c in QB_CLASSES] + ["setop", "create", "drop", "load", "table", "case", "agg", "analytic", "analytic_frame",
                                              "crit", "contains", "field", "arith", "tuple", "fn", "not", "joinobj"]


@functools.lru_cache(maxsize=None)
def menu(family):
    if family.startswith("qb:"):
        return qb_menu(family[3:])
    return {"setop": setop_menu, "create": create_menu, "drop": drop_menu, "load": load_menu, "table": table_menu, "joinobj": join_menu}.get(
        family, lambda: term_menu(family))()


def result_family(family, st_):
    m = st_[0]
    if family.startswith("qb:") and m in ("union", "union_all", "intersect", "except_of", "minus"):
        return "setop"
    return family


@st.composite
def root(draw, family):
    """-> root program producing an object of the family (populated with a few steps of its own menu)"""
    if family.startswith("qb:"):
        cls = family[3:]
        entry = draw(st.sampled_from(["select", "select", "insert", "update", "delete", "empty"]))
        k = draw(st.sampled_from(("T", "T", "T") + K))
        if entry == "select":
            steps = [["from_", [["src", k]]], ["select", [["col", k, "a"], ["as", ["col", k, "b"], "al1"]]]]
        elif entry == "insert":
            steps = [["into", [["src", k]]], ["insert", [["raw", 1], ["raw", "v"]]]]
        elif entry == "update":
            steps = [["update", [["src", k]]], ["set", [["py", "a"], ["raw", 1]]]]
        elif entry == "delete":
            steps = [["from_", [["src", k]]], ["delete", []]]
        else:
            steps = [["from_", [["src", k]]]]
        extra = draw(st.lists(one_of_steps(qb_menu(cls)), min_size=0, max_size=4))
        extra = [e for e in extra if result_family(family, e) == family]
        if cls == "postgresql" and draw(st.integers(0, 2)) == 0:
            # the PostgreSQL-only clauses, populated
            if entry in ("insert", "update", "delete"):
                extra.append(["returning", [["col", k, "id"], ["col", k, "b"]]])
            elif entry == "select":
                extra.append(["distinct_on", [["col", k, "a"]]])
        if entry == "update" and draw(st.integers(0, 2)) == 0:
            extra.append(["from_", [["src", "U" if k != "U" else "V"]]])
        return {"cls": cls, "sources": {}, "steps": steps + extra}
    if family == "setop":
        cls = draw(st.sampled_from(QB_CLASSES))
        return {"cls": cls, "sources": {}, "steps": [["from_", [["src", "T"]]], ["select", [["col", "T", "a"]]],
                                                     [draw(st.sampled_from(["union", "union_all", "intersect"])), [draw(SUBQ)]]] + draw(st.lists(one_of_steps(setop_menu()), max_size=2))}
    if family == "create":
        return {"cls": draw(st.sampled_from(QB_CLASSES)), "sources": {}, "steps": [["create_table", [["py", "nt"]]]] + draw(st.lists(one_of_steps(create_menu()[1:9]), max_size=3))}
    if family == "drop":
        return {"cls": "generic", "sources": {}, "steps": [["drop_table", [["py", "nt"]]]]}
    if family == "load":
        return {"cls": "mysql", "sources": {}, "steps": [["load", [["py", "/f0"]]]] + draw(st.lists(one_of_steps(load_menu()), max_size=1))}
    if family == "table":
        return {"root": "src", "key": draw(st.sampled_from(K)), "sources": {}, "steps": []}
    c = lambda: draw(gen.col(K))  # noqa: E731
    if family == "case":
        t = ["case", [[draw(gen.crit(K, 2)), draw(gen.raw_value())] for _ in range(draw(st.integers(0, 2)))], None]
    elif family == "agg":
        t = ["fn", draw(st.sampled_from(["Sum", "Count", "Avg", "Max"])), [c()]]
        if draw(st.booleans()):
            t = ["call", t, "filter", [draw(gen.crit(K, 2))]]
    elif family == "analytic":
        t = ["an", draw(st.sampled_from(["Rank", "RowNumber", "DenseRank"])), []]
        if draw(st.booleans()):
            t = ["call", t, "over", [c()]]
        if draw(st.booleans()):
            t = ["call", t, "orderby", [c()]]
    elif family == "analytic_frame":
        t = ["an", draw(st.sampled_from(["Sum", "Avg", "FirstValue", "LastValue", "Max"])), [c()]]
        if draw(st.booleans()):
            t = ["call", t, "over", [c()]]
        if draw(st.booleans()):
            t = ["call", t, "orderby", [c()]]
    elif family == "crit":
        t = draw(gen.crit(K, 3))
    elif family == "contains":
        t = ["in", c(), [["raw", 1], ["raw", 2]]]
    elif family == "field":
        t = c()
    elif family == "arith":
        t = ["add", c(), draw(st.one_of(gen.col(K), gen.num_value()))]
    elif family == "tuple":
        t = [draw(st.sampled_from(["tuple", "array"])), [c(), draw(gen.raw_value())]]
    elif family == "fn":
        t = ["cfn", "COALESCE", [c(), draw(gen.raw_value())]]
    elif family == "not":
        t = ["not", draw(gen.crit(K, 2)), "cls"]
    elif family == "joinobj":
        kind = draw(st.sampled_from(["joinon", "joinusing", "joincross"]))
        k = draw(st.sampled_from(K))
        t = [kind, ["src", k], "inner", draw(EQ_ON) if kind == "joinon" else ["a"]]
    else:
        raise HarnessError(family)
    return {"root": "term", "term": t, "sources": {}}


def build_root(program):
    p = dict(program)
    p["sources"] = dict(gen.SOURCES, **{"N:n1": ["tbl", "n1", None, None], "N:n2": ["tbl", "n2", None, None]})
    p["sources"].update(program.get("sources") or {})
    if p.get("root", "query") == "query":
        # steps that raise are no-ops for the chain
        obj = prog.query_cls(p.get("cls", "generic"))
        for st_ in p["steps"]:
            env = fresh_env(p.get("cls", "generic"))
            try:
                obj = prog.apply_step(obj, st_, env)
            except Exception:
                continue
        return obj
    return prog.build_program(p)


def fresh_env(cls_name="generic"):
    return prog.Env(cls_name, dict(gen.SOURCES, **{"N:n1": ["tbl", "n1", None, None], "N:n2": ["tbl", "n2", None, None]}))


def cls_of_family(family):
    return family[3:] if family.startswith("qb:") else "generic"


def apply(obj, st_, family):
    """apply one step on fresh arguments; returns (result, None) or (None, exception type name)"""
    env = fresh_env(cls_of_family(family))
    try:
        return prog.apply_step(obj, st_, env), None
    except RecursionError:
        return None, "RecursionError"
    except Exception as e:
        return None, type(e).__name__


@st.composite
def history(draw, max_ops=12, max_live=7, families=None):
    fams = families or FAMILIES
    ops = []
    live = []  # family per live object
    used = []  # method names already in the chain of each live object
    n_roots = draw(st.integers(1, 2))
    for _ in range(n_roots):
        f = draw(st.sampled_from(fams))
        r = draw(root(f))
        ops.append(["new", f, r])
        live.append(f)
        used.append([s[0] for s in r.get("steps", [])] + _term_methods(r.get("term")))
    n = draw(st.integers(2, max_ops))
    for _ in range(n):
        if len(live) >= max_live:
            break
        i = draw(st.integers(0, len(live) - 1))
        f = live[i]
        m = menu(f)
        names = sorted({s.name for s in m if s.name in used[i]})
        if names and draw(st.integers(0, 9)) < 6:
            # address a clause that is already non-empty (the case the property stresses)
            nm = draw(st.sampled_from(names))
            st_ = draw(one_of_steps([s for s in m if s.name == nm]))
        else:
            st_ = draw(one_of_steps(m))
        ops.append(["call", i, st_])
        live.append(result_family(f, st_))
        used.append(used[i] + [st_[0]])
    return {"ops": ops}


def _term_methods(t):
    out = []
    while isinstance(t, list) and t and t[0] == "call":
        out.append(t[2])
        t = t[1]
    if isinstance(t, list) and t and t[0] == "case" and t[1]:
        out.append("when")
    return out


def discovered_builders():
    """(class name, method) for every builder-decorated method in the live package"""
    import inspect
    import pypika_tortoise
    from pypika_tortoise import analytics, functions, queries, terms
    from pypika_tortoise.dialects import mssql, mysql, oracle, postgresql, sqlite

    out = set()
    for mod in (queries, terms, functions, analytics, mysql, postgresql, sqlite, mssql, oracle):
        for _, cls in inspect.getmembers(mod, inspect.isclass):
            if not cls.__module__.startswith("pypika_tortoise"):
                continue
            for name, val in vars(cls).items():
                if inspect.isfunction(val) and val.__qualname__.endswith("builder.<locals>._copy"):
                    out.add((cls.__name__, name))
    return out
