"""C13 - Statements are well-formed and independent of the order of commuting calls.

Domain   for each statement kind and class a list of clause-setting calls (structured generator + DDL programs) and its admissible
         permutations (random linear extensions of the documented partial order; all of them when few) and sub-lists (incomplete builders).
Oracle   (1) commutation: every admissible order renders the same snapshot; the offending pair of calls is found by bubbling;
         (2) accumulation: repeated calls to one clause appear in call order (marker names);
         (3) well-formedness on the token stream: balanced brackets, depth-0 clause keywords follow the class's clause-order table,
             each at most once;
         (4) a sub-list of the calls renders "", a complete statement, or raises a library exception - never a fragment;
         (5) SQLite-class statements of every kind (DDL included), restricted to methods that exist in SQLite's grammar, are accepted
             by the engine's parser (parse-class errors only).
"""
from __future__ import annotations

import itertools
import json
import sqlite3

from hypothesis import HealthCheck, given, seed, settings, strategies as st

from pbt import gen, lex, prog, snap
from pbt.core import Collector, HarnessError, mksig

ID = "C13"
RULE = ("statement programs of every kind (select / insert / insert..select / upsert / update / delete / create / drop) x six classes; for each up to 12 random "
        "admissible call orders and up to 6 sub-lists; SQLite programs are prepared by the engine; plus the complete enumeration of set-operation clause calls (5 operators x operand tails x every ordered subset of orderby/limit/offset x six classes). Non-trivial = >= 3 distinct clauses and >= 2 admissible "
        "orders that differ; distinct = distinct (program, order). Select programs may carry a self-join whose second table object is mentioned in WHERE / HAVING (the automatic alias must show whatever the call order)."
        " Plus an enumerated family: every accumulating clause (27 of them, DDL, CASE, FILTER and OVER included) called twice with markers - both calls rendered, in call order.")
ASSUMPTIONS = [
    "admissible orders keep: calls to the same clause, into vs select, on_conflict < handler < where and any where vs on_conflict, update/delete vs select, "
    "as_select vs columns, from_ before joins, into before columns/insert/on_conflict, DML marker before returning, pagination setters among themselves, set-operation creation as a barrier",
    "a call with a column-name string (select / groupby / orderby) made before the first from_() may raise (the library resolves the name against the FROM item when the call "
    "is made and says so for select: 'no FROM table specified'); such an order is skipped when it raises and compared like any other when it renders",
    "clause-order tables record the library's documented dialect forms (CHANGELOG / tests) - C13 checks the library follows one table per class in every call order",
    "vendor-only clauses (index hints, PREWHERE, WITH TOTALS, ROLLUP, FOR UPDATE, temporal, system versioning, UNLOGGED) are outside the SQLite engine check",
]

CTXS = prog.CLS_NAMES
ENTRY = ("from_", "into", "select", "update", "with_", "create_table", "drop_table")
PAGINATION = ("limit", "offset", "slice", "fetch_next", "top", "__getitem__")
SETOPS = ("union", "union_all", "intersect", "except_of", "minus")
SETOP_SPELLINGS = SETOPS + ("__add__", "__mul__", "__sub__")  # the operators + * - are UNION, UNION ALL, MINUS


def group_of(step):
    m = step[0]
    if m in PAGINATION:
        return "pagination"
    if m in ("groupby", "rollup", "with_totals"):
        return "groupby"
    if m in ("insert", "replace"):
        return "values"
    if m in ("do_update", "do_nothing"):
        return "handler"
    if m in ("force_index", "use_index"):
        return m
    return m


def before(a, b, steps, i, j):
    """must call i stay before call j (i < j in the base order)?"""
    ga, gb = group_of(a), group_of(b)
    ma, mb = a[0], b[0]
    if ga == gb:
        return True
    if ma in SETOPS or mb in SETOPS:
        return True
    pair = {ma, mb}
    if pair == {"into", "select"} or pair <= {"update", "delete", "select"} and len(pair) == 2:
        return True
    if ma == "into" and mb in ("columns", "insert", "replace", "on_conflict", "do_update", "do_nothing", "returning"):
        return True
    if ma in ("update", "delete") and mb == "returning":
        return True
    if ma == "from_" and mb in ("delete",) and False:
        return True
    if "on_conflict" in pair and ({"where"} & pair or {"do_update", "do_nothing"} & pair):
        return True
    if pair <= {"do_update", "do_nothing", "where"} and len(pair) == 2 and any(s[0] == "on_conflict" for s in steps):
        return True
    if ma == "from_" and mb == "join":
        return True
    if pair == {"as_select", "columns"}:
        return True
    if ma == "create_table" or ma == "drop_table":
        return True
    if mb == "from_" and ma == "join":
        return True
    # (string arguments resolve against the first FROM item at call time: an order that makes such a call before from_() is allowed to
    #  raise - see str_before_from() - but if it renders, it must render the same statement)
    if ma == "values" and False:
        return True
    if ma in ("insert", "replace") and mb in ("on_conflict",):
        return True
    if ma == "update" and mb in ("set", "from_", "join"):
        return True
    if ma == "delete" or mb == "delete":
        return ma == "from_" and mb == "delete" or ma == "delete"
    return False


def _has_str_arg(step):
    return step[0] in ("select", "groupby", "orderby") and any(isinstance(a, list) and a and a[0] == "py" for a in step[1])


def str_before_from(steps, order):
    """does the order make a call with a column-name string before the first from_()?  The library resolves such names against the FROM
    item when the call is made (select('a') says so: 'no FROM table specified'), so these orders may raise."""
    seen_from = False
    for i in order:
        if steps[i][0] in ("from_", "into", "update"):
            seen_from = True
        elif not seen_from and _has_str_arg(steps[i]):
            return True
    return False


def partial_order(steps):
    n = len(steps)
    return {(i, j) for i in range(n) for j in range(i + 1, n) if before(steps[i], steps[j], steps, i, j)}


@st.composite
def linear_extension(draw, n, po):
    remaining = list(range(n))
    out = []
    while remaining:
        avail = [k for k in remaining if not any((i, k) in po for i in remaining if i != k)]
        k = draw(st.sampled_from(avail))
        out.append(k)
        remaining.remove(k)
    return out


# column defaults: none, literals, a signed number, an arithmetic expression, function calls, CURRENT_TIMESTAMP
DEFAULTS = [None, None, ["raw", 5], ["raw", "x"], ["raw", -1], ["add", ["vw", ["raw", 1]], ["raw", 2]], ["fn", "Upper", [["raw", "x"]]], ["fn", "CurTimestamp", []],
            ["neg", ["vw", ["raw", 3]]], ["fn", "Coalesce", [["raw", None], ["raw", 0]]]]


@st.composite
def ddl_program(draw):
    cls = draw(st.sampled_from(CTXS))
    # the table by name, or as a Table object - which may carry an alias from the queries it also serves (DDL names a table: no alias there)
    target = draw(st.sampled_from([["py", "nt"], ["py", "nt"], ["src", "NTA"], ["src", "NTP"]]))
    srcs = dict(gen.SOURCES, NTA=["tbl", "nt", None, "x9"], NTP=["tbl", "nt", None, None])
    if draw(st.integers(0, 3)) == 0:
        steps = [["drop_table", [target]]] + ([["if_exists", []]] if draw(st.booleans()) else [])
        return {"cls": cls, "sources": srcs, "steps": steps, "kind": "drop"}
    steps = [["create_table", [target]]]
    if draw(st.integers(0, 4)) == 0:
        steps.append(["as_select", [["q", {"cls": "inherit", "sources": {}, "steps": [["from_", [["src", "T"]]], ["select", [["col", "T", "a"]]]]}]]])
    else:
        for i in range(draw(st.integers(1, 3))):
            steps.append(["columns", [draw(st.sampled_from([["py", "c%d" % i], ["pytuple", [["py", "c%d" % i], ["py", "INT"]]], ["column", "c%d" % i, "INT", draw(st.sampled_from([None, True, False])), draw(st.sampled_from(DEFAULTS))]]))]])
        if draw(st.booleans()):
            steps.append(["unique", [["py", "c0"]]])
        if draw(st.booleans()):
            steps.append(["primary_key", [["py", "c0"]]])
        if draw(st.integers(0, 4)) == 0:
            steps.append(["period_for", [["py", "p"], ["py", "c0"], ["py", "c0"]]])
        if draw(st.integers(0, 4)) == 0:
            steps.append(["with_system_versioning", []])
    for m in ("temporary", "if_not_exists", "unlogged"):
        if draw(st.integers(0, 3)) == 0:
            steps.append([m, []])
    return {"cls": cls, "sources": srcs, "steps": steps, "kind": "create"}


@st.composite
def case_st(draw):
    if draw(st.integers(0, 5)) == 0:
        p = draw(ddl_program())
    else:
        p = draw(gen.statement(value_kinds=("int", "str")))
        extra = []
        if p["kind"] == "select":
            k = p["steps"][0][1][0][1] if p["steps"][0][0] == "from_" and p["steps"][0][1][0][0] == "src" else None
            if draw(st.integers(0, 3)) == 0:
                extra.append(["for_update", []])
            if k and draw(st.integers(0, 4)) == 0:
                extra.append(["force_index", [["py", "ix1"]]])
            if k and draw(st.integers(0, 4)) == 0:
                extra.append(["use_index", [["py", "ux1"]]])
            if k and draw(st.integers(0, 5)) == 0:
                extra.append(["prewhere", [["gt", ["col", k, "a"], ["raw", 0]]]])
            if k and draw(st.integers(0, 3)) == 0:
                extra.append(["where", [["lt", ["col", k, "b"], ["raw", 77]]]])
                extra.append(["orderby", [["col", k, "c"]]])
            if k and draw(st.integers(0, 7)) == 0 and not any(s_[0] in SETOPS for s_ in p["steps"]):
                # an interval literal as a select item of its own (INTERVAL is a Node, not a Term) next to ORDER BY / GROUP BY lookups
                extra.append(["select", [["interval", {"days": 1}]]])
                extra.append(["orderby", [["col", k, "a"]]])
            if k and draw(st.integers(0, 3)) == 0:
                # columns given by name: resolved against the first FROM item, so they stay after from_ (partial order) but commute with joins
                extra.append(["orderby", [["py", "b"]]])
                if draw(st.booleans()) and not any(s_[0] == "groupby" for s_ in p["steps"]):
                    extra.append(["groupby", [["py", "a"]]])
            if k in ("T", "U", "V") and draw(st.integers(0, 4)) == 0:
                # a self-join with a second, un-aliased object of the same table: the join gives that object its automatic alias, and
                # a WHERE / HAVING that mentions the object must show the alias whether it was called before or after the join
                p["sources"] = dict(p["sources"], SJ=list(p["sources"][k]))
                extra.append(["join", [["src", "SJ"], ["enum", "JoinType", "inner"]], {}, ["on", [["eq", ["col", k, "a"], ["col", "SJ", "b"]]]]])
                extra.append(["where", [["gt", ["col", "SJ", "c"], ["raw", 5]]]])
                if draw(st.booleans()) and any(s_[0] == "groupby" for s_ in p["steps"]):
                    extra.append(["having", [["gt", ["fn", "Max", [["col", "SJ", "c"]]], ["raw", 6]]]])
            elif k in ("T", "U", "V") and not any(s_[0] in SETOPS for s_ in p["steps"]) and draw(st.integers(0, 5)) == 0:
                # an un-aliased subquery joined (it gets its automatic sqN then): all its columns, then one of them again - dropped as
                # redundant whether the select() calls came before or after the join
                other = "U" if k != "U" else "V"
                p["sources"] = dict(p["sources"], SQJ=["sub", {"cls": "inherit", "sources": {}, "steps": [["from_", [["src", other]]], ["select", [["col", other, "a"], ["col", other, "b"]]]]}, None])
                extra.append(["join", [["src", "SQJ"], ["enum", "JoinType", "inner"]], {}, ["on", [["eq", ["col", k, "a"], ["col", "SQJ", "a"]]]]])
                extra.append(["select", [["star", "SQJ"]]])
                extra.append(["select", [["col", "SQJ", "b"]]])
        # set-operation creation stays a barrier; insert the extras before it
        cut = next((i for i, s in enumerate(p["steps"]) if s[0] in SETOPS), len(p["steps"]))
        p["steps"] = p["steps"][:cut] + extra + p["steps"][cut:]
        p.pop("markers", None)
    n = len(p["steps"])
    po = partial_order(p["steps"])
    norders = draw(st.integers(2, 8))
    orders = [draw(linear_extension(n, po)) for _ in range(norders)]
    orders = [o for o in orders if p["steps"][o[0]][0] in ENTRY]
    nsub = draw(st.integers(1, 4))
    subsets = []
    for _ in range(nsub):
        drop = draw(st.lists(st.integers(0, n - 1), min_size=1, max_size=min(3, n), unique=True))
        keep = [i for i in range(n) if i not in drop]
        if keep and p["steps"][keep[0]][0] in ENTRY:
            subsets.append(keep)
    return {"program": p, "orders": orders, "subsets": subsets}


# ---- oracles ---------------------------------------------------------------------------------------------------------


def build_order(p, order):
    q = dict(p)
    q["steps"] = [p["steps"][i] for i in order]
    return prog.build_program(q)


def snap_of(p, order):
    try:
        o = build_order(p, order)
    except prog.library_exceptions() as e:
        return {"build": "EXC:" + type(e).__name__}
    except (AttributeError, IndexError) as e:
        return {"build": "EXC:" + type(e).__name__}
    return snap.render_snapshot(o, contexts=(p["cls"],), meta=False)


def find_pair(p, base, target):
    """bubble base towards target; the first adjacent swap that changes the rendering names the non-commuting pair"""
    cur = list(base)
    ref = snap_of(p, cur)
    for i in range(len(target)):
        j = cur.index(target[i])
        while j > i:
            cur[j - 1], cur[j] = cur[j], cur[j - 1]
            j -= 1
            if p["steps"][cur[0]][0] not in ENTRY:
                continue
            s = snap_of(p, cur)
            if "build" in s and str_before_from(p["steps"], cur):
                continue
            if s != ref:
                return (p["steps"][cur[j + 1]][0], p["steps"][cur[j]][0]), ref, s
    return None, ref, ref


CLAUSE_WORDS = {"WITH", "SELECT", "INSERT", "REPLACE", "UPDATE", "DELETE", "INTO", "VALUES", "FROM", "FORCE", "USE", "JOIN", "PREWHERE", "WHERE", "GROUP", "HAVING",
                "ORDER", "LIMIT", "OFFSET", "FETCH", "FOR", "SET", "CONFLICT", "DUPLICATE", "RETURNING", "ROLLUP", "TOTALS", "UNION", "INTERSECT", "EXCEPT", "MINUS", "CREATE", "DROP", "LOAD"}


def depth0_words(tokens):
    out = []
    depth = 0
    prev = None
    for i, t in enumerate(tokens):
        if t.kind == "punct" and t.text in "([":
            depth += 1
        elif t.kind == "punct" and t.text in ")]":
            depth -= 1
        elif depth == 0 and t.kind == "word" and t.value in CLAUSE_WORDS:
            if t.value == "UPDATE" and prev == "FOR":
                prev = t.value
                continue  # FOR UPDATE
            nxt = tokens[i + 1] if i + 1 < len(tokens) else None
            if t.value == "VALUES" and out and out[-1] in ("UPDATE", "SET", "DUPLICATE") and nxt is not None and nxt.text == "(" and "DUPLICATE" in out:
                continue  # MySQL VALUES(col) function inside ON DUPLICATE KEY UPDATE
            out.append(t.value)
        if t.kind == "word":
            prev = t.value
    return out


def order_table(cls, words):
    head = words[1] if words and words[0] == "WITH" and len(words) > 1 else (words[0] if words else "")
    page = ["OFFSET", "FETCH"] if cls in ("mssql", "oracle") else ["LIMIT", "OFFSET"]
    tail = ["FROM", "FORCE", "USE", "JOIN", "PREWHERE", "WHERE", "GROUP", "ROLLUP", "TOTALS", "HAVING", "ORDER"] + page + ["FOR"]
    if head == "SELECT":
        return ["WITH", "SELECT", "INTO"] + tail + ["RETURNING"]
    if head == "DELETE":
        return ["WITH", "DELETE"] + tail + ["RETURNING"]
    if head in ("INSERT", "REPLACE"):
        rest = tail + ["CONFLICT", "WHERE", "DUPLICATE", "UPDATE", "SET", "WHERE", "RETURNING"]
        if cls in ("mysql", "oracle") and "SELECT" in words:
            # MySQL and Oracle have no WITH in front of INSERT: the common table expressions stand immediately before the SELECT
            # (INSERT INTO t (..) WITH c AS (..) SELECT ..)
            return [head, "INTO", "WITH", "SELECT"] + rest
        return ["WITH", head, "INTO", "VALUES", "SELECT"] + rest
    if head == "UPDATE":
        if cls in ("postgresql", "sqlite"):
            return ["WITH", "UPDATE", "SET", "FROM", "JOIN", "WHERE", "ORDER", "LIMIT", "RETURNING"]
        if cls == "mysql":
            return ["WITH", "UPDATE", "JOIN", "SET", "FROM", "WHERE", "ORDER", "LIMIT"]
        return ["WITH", "UPDATE", "JOIN", "SET", "FROM", "WHERE"]
    return None


def wellformed(cls, sql):
    """-> None or (kind, detail)"""
    if sql.startswith("EXC:"):
        # rendering raised: a library exception is a refusal; anything else (AttributeError, TypeError ...) is a statement the builder
        # accepted and cannot render
        name = sql[4:]
        import pypika_tortoise.exceptions as X

        return None if hasattr(X, name) else ("render_raises:" + name, sql)
    toks = lex.lex(sql, cls)
    if any(t.kind == "bad" for t in toks):
        return ("unbalanced_quotes", sql)
    if not lex.balanced(toks):
        return ("unbalanced_brackets", sql)
    words = depth0_words(toks)
    if not words:
        return ("no_statement_keyword", sql)
    if words[0] in ("CREATE", "DROP", "LOAD"):
        return None  # DDL is checked by its own builder's tests and by the engine sub-check
    setops = [i for i, w in enumerate(words) if w in ("UNION", "INTERSECT", "EXCEPT", "MINUS")]
    if setops:
        # compound statement: the clauses of the set operation itself come after the last operand, each at most once and in order
        tail = words[setops[-1] + 1:]
        if lex.lex(sql, cls) and any(t.kind == "punct" and t.text == "(" for t in toks[:1]):
            page = ["OFFSET", "FETCH"] if cls in ("mssql", "oracle") else ["LIMIT", "OFFSET"]
            allowed = ["ALL", "ORDER"] + page
            pos = 0
            for w in tail:
                if w not in allowed:
                    continue
                if w in allowed[:pos] or (w in allowed and allowed.index(w) < pos):
                    return ("repeated_clause" if tail.count(w) > 1 else "clause_order", "%s in the tail of the set operation %r" % (w, sql))
                pos = allowed.index(w) + 1
        return None
    if cls in ("mysql", "oracle") and len(words) > 1 and words[0] == "WITH" and words[1] in ("INSERT", "REPLACE") and "SELECT" in words:
        return ("with_before_insert", "%s has no WITH in front of INSERT (the form is INSERT INTO t (..) WITH c AS (..) SELECT ..): %r" % (cls, sql))
    table = order_table(cls, words)
    if table is None:
        return ("fragment", "statement starts with %s: %r" % (words[0], sql))
    # WITH at depth 0 after the head is WITH ROLLUP / WITH TOTALS / WITH SYSTEM VERSIONING
    # (a WITH directly followed by SELECT is the common-table-expression clause of INSERT .. WITH .. SELECT and stays)
    seq = [w for i, w in enumerate(words) if not (w == "WITH" and i > 0 and not (i + 1 < len(words) and words[i + 1] == "SELECT"))]
    pos = 0
    last = None
    for w in seq:
        if w == "JOIN" and last == "JOIN":
            continue
        try:
            k = table.index(w, pos)
        except ValueError:
            kind = "repeated_clause" if w in table[:pos] and w not in ("WHERE", "SET", "UPDATE", "SELECT", "FROM", "INTO") else "clause_order"
            if w in table[:pos]:
                return (kind, "%s after %s in %r" % (w, last, sql))
            return ("clause_order", "unexpected %s after %s in %r" % (w, last, sql))
        pos = k + (0 if w == "JOIN" else 1)
        last = w
    head = seq[1] if seq[0] == "WITH" and len(seq) > 1 else seq[0]
    if head == "DELETE" and "FROM" not in seq:
        return ("fragment", "DELETE without FROM: %r" % sql)
    if head in ("SELECT", "DELETE") and "JOIN" in seq and "FROM" not in seq:
        return ("fragment", "JOIN without FROM: %r" % sql)
    if head == "UPDATE" and "SET" not in seq:
        return ("fragment", "UPDATE without SET: %r" % sql)
    if head in ("INSERT", "REPLACE") and "VALUES" not in seq and "SELECT" not in seq:
        return ("fragment", "INSERT without VALUES/SELECT: %r" % sql)
    return None


SQLITE_UNSUPPORTED = ("force_index", "use_index", "prewhere", "with_totals", "rollup", "for_update", "period_for", "with_system_versioning", "unlogged", "replace_table")
_PARSE_ERRORS = ("syntax error", "unrecognized token", "incomplete input")


def sqlite_parse(sql):
    con = sqlite3.connect(":memory:")
    try:
        con.execute("ATTACH ':memory:' AS sch")
        for t in ("t1", "t2", "t3", "t5", "sch.t4"):
            con.execute("CREATE TABLE %s (id INTEGER, a, b, c)" % t)
        try:
            con.execute("EXPLAIN " + sql)
        except sqlite3.Error as e:
            msg = str(e)
            if any(p in msg for p in _PARSE_ERRORS):
                return msg
        except Exception:
            return None
    finally:
        con.close()
    return None


def _operand_has_tail(steps):
    return any(st_[0] in ("orderby", "limit", "offset", "slice", "__getitem__") for st_ in steps)


def _limited_setop_operand(p):
    """SQLite's compound-select grammar has no ORDER BY / LIMIT on an operand (that needs a subquery): no counterpart for such programs"""
    def walk(prog_):
        steps = prog_.get("steps", [])
        for i, st_ in enumerate(steps):
            if st_[0] in SETOPS:
                if _operand_has_tail(steps[:i]):
                    return True
                for a in st_[1]:
                    if isinstance(a, list) and a and a[0] == "q" and _operand_has_tail(a[1].get("steps", [])):
                        return True
        found = False

        def rec(n):
            nonlocal found
            if isinstance(n, dict):
                if "steps" in n and n is not prog_ and walk(n):
                    found = True
                for v in n.values():
                    rec(v)
            elif isinstance(n, list):
                for v in n:
                    rec(v)

        rec(steps)
        return found

    return walk(p)


def uses_unsupported(p):
    if _limited_setop_operand(p):
        return True
    txt = json.dumps(p["steps"])
    if any('"%s"' % m in txt for m in SQLITE_UNSUPPORTED):
        return True
    if '"hash"' in txt or '"for"' in txt or '"P"' in txt or '"cfn"' in txt or '"FN1"' in txt or '"NullIf"' in txt and False:
        return True
    return False


def check(case):
    out = []
    p = case["program"]
    cls = p["cls"]
    n = len(p["steps"])
    base = list(range(n))
    ref = snap_of(p, base)
    kind = p.get("kind", "?")
    # (1) commutation
    for order in case["orders"]:
        if sorted(order) != base:
            continue
        s = snap_of(p, order)
        if "build" in s and str_before_from(p["steps"], order):
            continue  # permitted to raise
        if s != ref:
            pair, a, b = find_pair(p, base, order)
            if pair is None:
                pair = ("?", "?")
            k = snap.diff_keys(a, b)
            out.append((mksig("order", kind if kind in ("create", "drop") else "dml", "/".join(sorted(pair))),
                        "calling %s before/after %s changes the statement: %r vs %r" % (pair[0], pair[1], a.get(k[0]) if k else a, b.get(k[0]) if k else b)))
            break
    # (3) well-formedness of every order
    sqls = set()
    for order in [base] + [o for o in case["orders"] if sorted(o) == base]:
        s = snap_of(p, order)
        v = s.get("sql:" + cls)
        if isinstance(v, str) and v:
            sqls.add(v)
    for sql in sorted(sqls):
        w = wellformed(cls, sql)
        if w is not None:
            out.append((mksig("wellformed", cls if w[0] in ("clause_order", "with_before_insert") else "any", w[0], _clause_pair(w[1]) if w[0] != "with_before_insert" else ""), w[1]))
            break
    # (4) incomplete builders: the drawn sub-lists, and every sub-list that omits exactly one call
    singles = [[i for i in range(n) if i != j] for j in range(n)] if n <= 14 else []
    singles = [k for k in singles if k and p["steps"][k[0]][0] in ENTRY]
    for keep in list(case["subsets"]) + singles:
        s = snap_of(p, keep)
        v = s.get("sql:" + cls) if "build" not in s else None
        if isinstance(v, str) and v.startswith("EXC:"):
            continue  # raising is one of the three permitted outcomes for an incomplete builder
        if isinstance(v, str) and v:
            w = wellformed(cls, v)
            if w is not None and w[0] in ("fragment", "no_statement_keyword", "unbalanced_brackets"):
                out.append((mksig("incomplete", w[0], _fragment_shape(v)), "calls %r render %r" % ([p["steps"][i][0] for i in keep], v)))
                break
        elif isinstance(v, str) and v.startswith("EXC:") and v not in ("EXC:QueryException", "EXC:CaseException", "EXC:SetOperationException", "EXC:JoinException", "EXC:RollupException", "EXC:AttributeError"):
            pass
    # (5) engine
    if cls == "sqlite" and not uses_unsupported(p):
        for sql in sorted(sqls)[:3]:
            msg = sqlite_parse(sql)
            if msg:
                out.append((mksig("sqlite_parser", kind, _near(msg)), "%s: %r" % (msg, sql)))
                break
    return out


# ---- enumerated family: clauses of a set operation ------------------------------------------------------------------------

SETOP_TAILS = [[]] + [list(x) for r in (1, 2, 3) for x in itertools.permutations(("orderby", "limit", "offset"), r)]


def setop_cases():
    for cls in CTXS:
        for op in SETOP_SPELLINGS:
            for optail in (0, 1, 2, 3, 4, 5, 6):
                for tail in SETOP_TAILS:
                    yield {"family": "setop", "cls": cls, "op": op, "optail": optail, "tail": tail}


def incomplete_setop_cases():
    """a set operation over builders that are not statements yet (no select list): nothing to render - the empty string, not ' UNION '"""
    for cls in CTXS:
        for op in SETOPS:
            for which in ("first", "second", "both"):
                for tail in ([], ["orderby", "limit"]):
                    yield {"family": "setop_incomplete", "cls": cls, "op": op, "which": which, "tail": tail}


def check_incomplete_setop(case):
    import pypika_tortoise as P

    Q = prog.query_cls(case["cls"])
    t, u = P.Table("t"), P.Table("u")
    a = Q.from_(t) if case["which"] in ("first", "both") else Q.from_(t).select(t.a)
    b = Q.from_(u) if case["which"] in ("second", "both") else Q.from_(u).select(u.a)
    try:
        so = getattr(a, case["op"])(b)
        if "orderby" in case["tail"]:
            so = so.orderby(t.a)
        if "limit" in case["tail"]:
            so = so.limit(5)
        sql = so.get_sql(prog.sql_context(case["cls"]))
    except Exception as e:
        if type(e).__module__.startswith("pypika_tortoise"):
            return []  # refusing with a library exception is one of the permitted outcomes
        return [(mksig("setop_incomplete", "raises", type(e).__name__), repr(e))]
    if sql != "":
        return [(mksig("fragment", "setop_of_incomplete_builders"), "%s of builders without a select list (%s) renders the fragment %r" % (case["op"], case["which"], sql))]
    return []


# ---- enumerated family: repeated calls to one clause accumulate in call order -------------------------------------------------------

def accumulate_cases():
    for cls in CTXS:
        for name in sorted(ACCUMULATING):
            yield {"family": "accumulate", "cls": cls, "clause": name}


def _acc(cls):
    import pypika_tortoise as P

    Q = prog.query_cls(cls)
    t, u, v = P.Table("t"), P.Table("u"), P.Table("v")
    return P, Q, t, u, v


class _Differ(Exception):
    pass


def _same(q1, q2, cls):
    a, b = q1.get_sql(prog.sql_context(cls)), q2.get_sql(prog.sql_context(cls))
    if a != b:
        raise _Differ("the two call orders render %r and %r" % (a, b))
    return q1


ACCUMULATING = {
    # name -> builder(cls) -> statement in which the clause was called twice, first with the marker m1q, then with m2q
    "where": lambda c: (lambda P, Q, t, u, v: Q.from_(t).select(t.a).where(t.m1q == 1).where(t.m2q == 2))(*_acc(c)),
    "prewhere": lambda c: (lambda P, Q, t, u, v: Q.from_(t).select(t.a).prewhere(t.m1q == 1).prewhere(t.m2q == 2))(*_acc(c)),
    "having": lambda c: (lambda P, Q, t, u, v: Q.from_(t).select(t.a).groupby(t.a).having(t.m1q == 1).having(t.m2q == 2))(*_acc(c)),
    "select": lambda c: (lambda P, Q, t, u, v: Q.from_(t).select(t.m1q).select(t.m2q))(*_acc(c)),
    "groupby": lambda c: (lambda P, Q, t, u, v: Q.from_(t).select(t.a).groupby(t.m1q).groupby(t.m2q))(*_acc(c)),
    "orderby": lambda c: (lambda P, Q, t, u, v: Q.from_(t).select(t.a).orderby(t.m1q).orderby(t.m2q))(*_acc(c)),
    "from_": lambda c: (lambda P, Q, t, u, v: Q.from_(P.Table("m1q")).from_(P.Table("m2q")).select("a"))(*_acc(c)),
    "join": lambda c: (lambda P, Q, t, u, v: Q.from_(t).join(P.Table("m1q")).cross().join(P.Table("m2q")).cross().select(t.a))(*_acc(c)),
    "with_": lambda c: (lambda P, Q, t, u, v: Q.with_(Q.from_(u).select(u.m1q), "c1").with_(Q.from_(v).select(v.m2q), "c2").from_(t).select(t.a))(*_acc(c)),
    "set": lambda c: (lambda P, Q, t, u, v: Q.update(t).set(t.m1q, 1).set(t.m2q, 2))(*_acc(c)),
    "insert_rows": lambda c: (lambda P, Q, t, u, v: Q.into(t).insert(P.Field("m1q")).insert(P.Field("m2q")))(*_acc(c)),
    "columns": lambda c: (lambda P, Q, t, u, v: Q.into(t).columns("m1q").columns("m2q").insert(1, 2))(*_acc(c)),
    "do_update": lambda c: (lambda P, Q, t, u, v: Q.into(t).insert(1).on_conflict("id").do_update("m1q", 1).do_update("m2q", 2))(*_acc(c)),
    "on_conflict_where": lambda c: (lambda P, Q, t, u, v: Q.into(t).insert(1).on_conflict("id").where(t.m1q == 1).where(t.m2q == 2).do_update("a", 1))(*_acc(c)),
    "do_update_where": lambda c: (lambda P, Q, t, u, v: Q.into(t).insert(1).on_conflict("id").do_update("a", 1).where(t.m1q == 1).where(t.m2q == 2))(*_acc(c)),
    "force_index": lambda c: (lambda P, Q, t, u, v: Q.from_(t).select(t.a).force_index("m1q").force_index("m2q"))(*_acc(c)),
    "use_index": lambda c: (lambda P, Q, t, u, v: Q.from_(t).select(t.a).use_index("m1q").use_index("m2q"))(*_acc(c)),
    "create_columns": lambda c: (lambda P, Q, t, u, v: Q.create_table("n").columns(P.Column("m1q", "INT")).columns(P.Column("m2q", "INT")))(*_acc(c)),
    "create_unique": lambda c: (lambda P, Q, t, u, v: Q.create_table("n").columns(P.Column("a", "INT")).unique("m1q").unique("m2q"))(*_acc(c)),
    "setop": lambda c: (lambda P, Q, t, u, v: Q.from_(t).select(t.a).union(Q.from_(u).select(u.m1q)).union(Q.from_(v).select(v.m2q)))(*_acc(c)),
    "case_when": lambda c: (lambda P, Q, t, u, v: Q.from_(t).select(P.Case().when(t.m1q == 1, 1).when(t.m2q == 2, 2).else_(0)))(*_acc(c)),
    "agg_filter": lambda c: (lambda P, Q, t, u, v: Q.from_(t).select(P.functions.Sum(t.a).filter(t.m1q == 1).filter(t.m2q == 2)))(*_acc(c)),
    "analytic_over": lambda c: (lambda P, Q, t, u, v: Q.from_(t).select(P.analytics.Sum(t.a).over(t.m1q).over(t.m2q)))(*_acc(c)),
    "analytic_orderby": lambda c: (lambda P, Q, t, u, v: Q.from_(t).select(P.analytics.Sum(t.a).over(t.b).orderby(t.m1q).orderby(t.m2q)))(*_acc(c)),
    "returning": lambda c: (lambda P, Q, t, u, v: Q.into(t).insert(1).returning(t.m1q).returning(t.m2q))(*_acc(c)),
    "distinct_on": lambda c: (lambda P, Q, t, u, v: Q.from_(t).select(t.a).distinct_on(t.m1q).distinct_on(t.m2q))(*_acc(c)),
    # a star called after an item that it does not make redundant: the first call must survive (the star carries no marker)
    "select_fn_then_star": lambda c: (lambda P, Q, t, u, v: Q.from_(t).select(P.functions.Upper(t.m1q)).select("*"))(*_acc(c)),
    "select_aliased_then_star": lambda c: (lambda P, Q, t, u, v: Q.from_(t).select(t.a.as_("m1q")).select("*"))(*_acc(c)),
    "select_not_then_table_star": lambda c: (lambda P, Q, t, u, v: Q.from_(t).select((~t.m1q).as_("off")).select(t.star))(*_acc(c)),
    "select_criterion_then_table_star": lambda c: (lambda P, Q, t, u, v: Q.from_(t).select((t.m1q == 0).as_("z"), t.star))(*_acc(c)),
    "returning_not_then_star": lambda c: (lambda P, Q, t, u, v: Q.into(t).insert(1).returning((~t.m1q).as_("off")).returning(t.star))(*_acc(c)),
    "returning_json_then_star": lambda c: (lambda P, Q, t, u, v: Q.into(t).insert(1).returning(P.terms.JSON({"k": 1}).as_("m1q"), "*"))(*_acc(c)),
    # the first condition is a term that is not a Criterion (where() takes any Term): the second call still adds to it
    "where_case_first": lambda c: (lambda P, Q, t, u, v: Q.from_(t).select(t.a).where(P.Case().when(t.m1q == 1, True).else_(False)).where(t.m2q == 2))(*_acc(c)),
    "having_case_first": lambda c: (lambda P, Q, t, u, v: Q.from_(t).select(t.a).groupby(t.a).having(P.Case().when(t.m1q == 1, True).else_(False)).having(t.m2q == 2))(*_acc(c)),
    "where_function_first": lambda c: (lambda P, Q, t, u, v: Q.from_(t).select(t.a).where(P.functions.Coalesce(t.m1q, 0)).where(t.m2q == 2))(*_acc(c)),
    # ORDER BY given as a column NAME on an UPDATE (rendered by the MySQL, SQLite and PostgreSQL builders): the same text whether from_() comes before or after
    "update_orderby_name": lambda c: (lambda P, Q, t, u, v: Q.update(t).set(t.a, 1).orderby("m1q").limit(1))(*_acc(c)),
    "update_orderby_name_then_from": lambda c: (lambda P, Q, t, u, v: _same(Q.update(t).set(t.a, 1).orderby("m1q").from_(u).limit(1), Q.update(t).set(t.a, 1).from_(u).orderby("m1q").limit(1), c))(*_acc(c)),
    # a constraint call without columns adds nothing (primary_key() is like that): no empty UNIQUE ()
    "create_unique_then_empty": lambda c: (lambda P, Q, t, u, v: Q.create_table("n").columns(P.Column("m1q", "INT")).unique("m1q").unique())(*_acc(c)),
    "create_unique_empty_alone": lambda c: (lambda P, Q, t, u, v: Q.create_table("n").columns(P.Column("m1q", "INT")).unique())(*_acc(c)),
    # ... and the other way round: an item that the star does not make redundant, called after it
    "select_star_then_aliased": lambda c: (lambda P, Q, t, u, v: Q.from_(t).select("*").select(t.a.as_("m1q")))(*_acc(c)),
    "select_table_star_then_aliased": lambda c: (lambda P, Q, t, u, v: Q.from_(t).select(t.star).select(t.a.as_("m1q")))(*_acc(c)),
    "select_star_then_fn": lambda c: (lambda P, Q, t, u, v: Q.from_(t).select("*", P.functions.Upper(t.m1q)))(*_acc(c)),
    "returning_star_then_aliased": lambda c: (lambda P, Q, t, u, v: Q.into(t).insert(1).returning("*", t.a.as_("m1q")))(*_acc(c)),
    "returning_table_star_then_aliased": lambda c: (lambda P, Q, t, u, v: Q.into(t).insert(1).returning(t.star).returning(t.a.as_("m1q")))(*_acc(c)),
    "agg_filter_case_first": lambda c: (lambda P, Q, t, u, v: Q.from_(t).select(P.functions.Sum(t.a).filter(P.Case().when(t.m1q == 1, True).else_(False)).filter(t.m2q == 2)))(*_acc(c)),
    "criterion_all_case_first": lambda c: (lambda P, Q, t, u, v: Q.from_(t).select(t.a).where(P.Criterion.all([P.Case().when(t.m1q == 1, True).else_(False), t.m2q == 2])))(*_acc(c)),
    "criterion_any_case_first": lambda c: (lambda P, Q, t, u, v: Q.from_(t).select(t.a).where(P.Criterion.any([P.Case().when(t.m1q == 1, True).else_(False), t.m2q == 2])))(*_acc(c)),
    "prewhere_empty_then_real": lambda c: (lambda P, Q, t, u, v: Q.from_(t).select(t.m1q).prewhere(P.Criterion.all([])).prewhere(t.m2q == 2))(*_acc(c)),
    "prewhere_empty_alone": lambda c: (lambda P, Q, t, u, v: Q.from_(t).select(t.m1q).prewhere(P.Criterion.all([])))(*_acc(c)),
    # an empty criterion after a real one is neutral, as it is for where()
    "having_then_empty": lambda c: (lambda P, Q, t, u, v: Q.from_(t).select(t.a).groupby(t.a).having(t.m1q == 1).having(P.Criterion.all([])))(*_acc(c)),
    "having_empty_alone": lambda c: (lambda P, Q, t, u, v: Q.from_(t).select(t.m1q).groupby(t.a).having(P.Criterion.all([])))(*_acc(c)),
    "agg_filter_then_empty": lambda c: (lambda P, Q, t, u, v: Q.from_(t).select(P.functions.Sum(t.a).filter(t.m1q == 1).filter(P.Criterion.any([]))))(*_acc(c)),
    "agg_filter_empty_alone": lambda c: (lambda P, Q, t, u, v: Q.from_(t).select(P.functions.Sum(t.m1q).filter(P.Criterion.all([]))))(*_acc(c)),
}
CLASS_ONLY = {"returning_star_then_aliased": ("postgresql",), "returning_table_star_then_aliased": ("postgresql",), "update_orderby_name": ("mysql", "sqlite", "postgresql"), "update_orderby_name_then_from": ("mysql", "sqlite", "postgresql"), "returning": ("postgresql",), "distinct_on": ("postgresql",), "returning_not_then_star": ("postgresql",), "returning_json_then_star": ("postgresql",)}
FIRST_ONLY = {"prewhere_empty_alone", "select_star_then_aliased", "select_table_star_then_aliased", "select_star_then_fn", "returning_star_then_aliased", "returning_table_star_then_aliased", "update_orderby_name", "update_orderby_name_then_from", "create_unique_then_empty", "create_unique_empty_alone", "select_fn_then_star", "select_aliased_then_star", "select_not_then_table_star", "select_criterion_then_table_star", "returning_not_then_star",
              "returning_json_then_star", "having_then_empty", "having_empty_alone", "agg_filter_then_empty", "agg_filter_empty_alone"}


def check_accumulate(case):
    cls, name = case["cls"], case["clause"]
    if name in CLASS_ONLY and cls not in CLASS_ONLY[name]:
        return []
    if cls == "mysql" and name in ("on_conflict_where", "do_update_where"):
        return []  # ON DUPLICATE KEY UPDATE has no WHERE: the position is not rendered
    try:
        q = ACCUMULATING[name](cls)
        sql = q.get_sql(prog.sql_context(cls))
    except Exception as e:
        if type(e).__module__.startswith("pypika_tortoise"):
            return []
        return [(mksig("accumulate", name, "raises", type(e).__name__), repr(e))]
    if sql == "" and name in ("prewhere", "force_index", "use_index"):
        return []
    toks = lex.lex(sql, cls)
    pos1 = [i for i, tk in enumerate(toks) if tk.kind == "qid" and tk.value == "m1q"]
    pos2 = [i for i, tk in enumerate(toks) if tk.kind == "qid" and tk.value == "m2q"]
    if name in FIRST_ONLY:
        if not pos1:
            return [(mksig("accumulate", name, "call_lost"), "%s: the item of the first call (m1q) is missing in %r" % (name, sql))]
        if "star" in name and not any(tk.text == "*" for tk in toks):
            return [(mksig("accumulate", name, "call_lost"), "%s: the star of the second call is missing in %r" % (name, sql))]
        if lex.balanced(toks) and any(a.text == "(" and b.text == ")" for a, b in zip(toks, toks[1:]) if a.kind == "punct" and b.kind == "punct") and name.startswith("create_"):
            return [(mksig("accumulate", name, "empty_brackets"), "%s renders an empty bracket pair: %r" % (name, sql))]
        if cls == "sqlite":
            err = sqlite_parse(sql.replace('"t"', '"t1"'))
            if err:
                return [(mksig("accumulate", name, "sqlite_parser"), "%r: %s" % (sql, err))]
        return []
    if not pos1 or not pos2:
        return [(mksig("accumulate", name, "call_lost"), "%s called twice (m1q, then m2q): %s is missing in %r" % (name, "the first call" if not pos1 else "the second call", sql))]
    if min(pos2) < min(pos1):
        return [(mksig("accumulate", name, "call_order"), "%s called with m1q, then m2q, renders them the other way round: %r" % (name, sql))]
    return []


def setop_program(case, tail):
    src = {"T": ["tbl", "t", None, None], "U": ["tbl", "u", None, None]}
    A = ["col", "T", "a"]
    steps = [["from_", [["src", "T"]]], ["select", [A]]]
    # clauses of the first operand: 1 ORDER BY, 2 ORDER BY + LIMIT, 3 OFFSET only, 4 LIMIT only
    if case["optail"] in (1, 2):
        steps.append(["orderby", [A]])
    if case["optail"] in (2, 4):
        steps.append(["limit", [["raw", 5]]])
    if case["optail"] == 3:
        steps.append(["offset", [["raw", 4]]])
    if case["optail"] == 6:
        steps.append(["for_update", []])  # a locking clause of the FIRST operand
    other = {"cls": "inherit", "sources": {}, "steps": [["from_", [["src", "U"]]], ["select", [["col", "U", "a"]]]]}
    if case["optail"] == 5:
        # the SECOND operand brings a WITH clause of its own: it must stay one unit, or WITH would stand in the middle of the compound
        other = {"cls": "inherit", "sources": {}, "steps": [["with_", [["q", other], ["py", "c9"]]], ["from_", [["cte", "c9"]]], ["select", [["py", "a"]]]]}
    steps.append([case["op"], [["q", other]]])
    for m in tail:
        steps.append({"orderby": ["orderby", [A]], "limit": ["limit", [["raw", 7]]], "offset": ["offset", [["raw", 2]]]}[m])
    return {"cls": case["cls"], "sources": src, "steps": steps}


def setop_tail_words(cls, sql):
    words = depth0_words(lex.lex(sql, cls))
    idx = [i for i, w in enumerate(words) if w in ("UNION", "INTERSECT", "EXCEPT", "MINUS")]
    return words[idx[-1] + 1:] if idx else None


def check_setop(case):
    cls = case["cls"]
    out = []
    canon = sorted(case["tail"], key=("orderby", "limit", "offset").index)
    try:
        s1 = prog.render(prog.build_program(setop_program(case, case["tail"])), cls)
        s0 = prog.render(prog.build_program(setop_program(case, canon)), cls)
    except Exception as e:
        return [(mksig("setop", cls, "raises", type(e).__name__), repr(e))]
    if s1 != s0:
        out.append((mksig("order", "setop", "/".join(sorted(case["tail"]))), "the tail calls %r and %r give %r vs %r" % (case["tail"], canon, s1, s0))) 
    toks = lex.lex(s1, cls)
    if any(t.kind == "bad" for t in toks) or not lex.balanced(toks):
        out.append((mksig("wellformed", "any", "unbalanced", "setop"), s1))
        return out
    tail = setop_tail_words(cls, s1)
    if tail is None:
        out.append((mksig("wellformed", cls, "setop_keyword_missing"), s1))
        return out
    # clauses of an operand must stay inside the operand: at depth 0 nothing but the operand's SELECT .. may precede the operator
    words = depth0_words(lex.lex(s1, cls))
    first = next(i for i, w in enumerate(words) if w in ("UNION", "INTERSECT", "EXCEPT", "MINUS"))
    stray = [w for w in words[:first] if w in ("ORDER", "LIMIT", "OFFSET", "FETCH", "FOR")]
    if stray:
        out.append((mksig("wellformed", cls, "operand_clause_outside_brackets"), "%s: the first operand's %s stands unbracketed before the operator, where the grammar ends the operand: %r" % (cls, "/".join(stray), s1)))
    # the last operand has no clauses of its own, so every ORDER / LIMIT / OFFSET / FETCH after it belongs to the set operation
    want = []
    L, O = "limit" in case["tail"], "offset" in case["tail"]
    if "orderby" in case["tail"] or (cls == "mssql" and (L or O)):
        want.append("ORDER")
    if cls in ("mssql", "oracle"):
        if O or (cls == "mssql" and L):
            want.append("OFFSET")
        if L:
            want.append("FETCH")
    else:
        if L or (O and cls in ("mysql", "sqlite")):
            want.append("LIMIT")
        if O:
            want.append("OFFSET")
    got = [w for w in tail if w in ("ORDER", "LIMIT", "OFFSET", "FETCH")]
    if got != want:
        kind = "repeated_clause" if len(set(got)) < len(got) else ("clause_order" if sorted(got) == sorted(want) else "clause_set")
        out.append((mksig("wellformed", cls, kind, "setop_tail"), "%s tail calls %r render the clauses %r (expected %r): %r" % (cls, case["tail"], got, want, s1)))
    kw = {"union": "UNION", "__add__": "UNION", "union_all": "UNION", "__mul__": "UNION", "intersect": "INTERSECT", "except_of": "EXCEPT", "minus": "MINUS", "__sub__": "MINUS"}[case["op"]]
    depth = 0
    followed_by_all = False
    for i, tk in enumerate(toks):
        if tk.kind == "punct" and tk.text in "([":
            depth += 1
        elif tk.kind == "punct" and tk.text in ")]":
            depth -= 1
        elif depth == 0 and tk.kind == "word" and tk.value in ("UNION", "INTERSECT", "EXCEPT", "MINUS"):
            followed_by_all = i + 1 < len(toks) and toks[i + 1].kind == "word" and toks[i + 1].value == "ALL"
            break
    if words[first] != kw or (case["op"] in ("union_all", "__mul__")) != followed_by_all:
        out.append((mksig("wellformed", cls, "setop_keyword", case["op"]), "%s renders %r" % (case["op"], s1)))
    if cls == "sqlite" and case["op"] not in ("minus", "__sub__") and case["optail"] != 6:  # (FOR UPDATE is not SQLite's)
        msg = sqlite_parse(s1)
        if msg:
            out.append((mksig("sqlite_parser", "setop", _near(msg)), "%s: %r" % (msg, s1)))
    return out


# ---- enumerated family: WITH [RECURSIVE] -----------------------------------------------------------------------------------------


def cte_cases():
    for cls in CTXS:
        for body in ("plain", "setop", "setop_joined"):
            for selfref in (False, True):
                # (a plain body that reads a source of the CTE's own name is not recursive - no dialect has recursion without a set
                # operation: the name means the real table there, e.g. WITH t AS (SELECT .. FROM t WHERE ..))
                yield {"family": "cte", "cls": cls, "body": body, "selfref": selfref}


def check_cte(case):
    """RECURSIVE is written exactly when a CTE body refers to the CTE's own name - and never under SQL Server / Oracle, which have no such keyword"""
    import pypika_tortoise as P

    cls = case["cls"]
    Q = prog.query_cls(cls)
    t, u = P.Table("t"), P.Table("u")
    own = P.Table("cname")
    if case["body"] == "plain":
        body = Q.from_(own if case["selfref"] else t).select("a")
    elif case["body"] == "setop":
        body = Q.from_(t).select(t.a).union_all(Q.from_(own if case["selfref"] else u).select("a"))
    else:
        other = own if case["selfref"] else u
        body = Q.from_(t).select(t.a).union_all(Q.from_(t).join(other).on(t.a == other.a).select(t.a))
    try:
        sql = Q.with_(body, "cname").from_(P.AliasedQuery("cname")).select("*").get_sql(prog.sql_context(cls))
    except Exception as e:
        return [(mksig("cte", cls, "raises", type(e).__name__), repr(e))]
    toks = lex.lex(sql, cls)
    has = len(toks) > 1 and toks[0].kind == "word" and toks[0].value == "WITH" and toks[1].kind == "word" and toks[1].value == "RECURSIVE"
    want = case["selfref"] and case["body"] != "plain" and cls not in ("mssql", "oracle")
    if has and not want:
        why = "no_such_keyword" if cls in ("mssql", "oracle") else "not_recursive"
        return [(mksig("wellformed", "mssql_oracle" if why == "no_such_keyword" else "any", "with_recursive", why), "%s: %r" % (why, sql))]
    if want and not has:
        return [(mksig("wellformed", "any", "with_recursive", "missing"), "the body of the CTE refers to the CTE itself, yet RECURSIVE is not written: %r" % sql)]
    return []


def _clause_pair(detail):
    parts = detail.split(" in ")[0].split()
    return "_".join(p for p in parts if p.isupper())[:40]


def _fragment_shape(sql):
    return "_".join(depth0_words(lex.lex(sql, "generic"))[:3]) or "?"


def _near(msg):
    return msg.replace('"', "").replace("near ", "near_").split(":")[0][:30]


def check_case(case):
    if case.get("family") == "cte":
        return check_cte(case)
    if case.get("family") == "setop":
        return check_setop(case)
    if case.get("family") == "setop_incomplete":
        return check_incomplete_setop(case)
    if case.get("family") == "accumulate":
        return check_accumulate(case)
    return check(case)


def valid_case(case):
    try:
        if case.get("family") == "cte":
            return case in list(cte_cases())
        if case.get("family") == "setop_incomplete":
            return case in list(incomplete_setop_cases())
        if case.get("family") == "accumulate":
            return case in list(accumulate_cases())
        if case.get("family") == "setop":
            return case["cls"] in CTXS and case["op"] in SETOP_SPELLINGS and case["optail"] in (0, 1, 2, 3, 4, 5, 6) and case["tail"] in SETOP_TAILS
        p = case["program"]
        n = len(p["steps"])
        if '["tbl", null' in json.dumps(p) or '"tbl", ""' in json.dumps(p):
            return False  # a table without a name is outside the input domain
        prog.build_program(p)
        return p["cls"] in CTXS and all(sorted(o) == list(range(n)) for o in case["orders"]) and all(all(0 <= i < n for i in k) and sorted(set(k)) == k for k in case["subsets"]) and \
            all(_admissible(p["steps"], o) for o in case["orders"])
    except (Exception, HarnessError):
        return False


def _admissible(steps, order):
    po = partial_order(steps)
    pos = {k: i for i, k in enumerate(order)}
    return all(pos[i] < pos[j] for i, j in po) and steps[order[0]][0] in ENTRY


def nontrivial(case):
    p = case["program"]
    groups = {group_of(s) for s in p["steps"]}
    n = len(p["steps"])
    differing = {tuple(o) for o in case["orders"] if sorted(o) == list(range(n))}
    return len(groups) >= 3 and len(differing | {tuple(range(n))}) >= 2


def shards(tier, sd):
    n = 8 if tier == "quick" else 32
    return [(tier, sd * 1000 + k) for k in range(n)] + [("setop", 0)]


def run_shard(shard):
    tier, sd = shard
    col = Collector()
    if tier == "setop":
        for case in setop_cases():
            col.case(case, bool(case["tail"]), classes=("family:setop", "cls:" + case["cls"]))
            for sig, detail in check_setop(case):
                col.violation(sig, case, detail)
        for case in accumulate_cases():
            col.case(case, True, classes=("family:accumulate",))
            for sig, detail in check_accumulate(case):
                col.violation(sig, case, detail)
        for case in incomplete_setop_cases():
            col.case(case, True, classes=("family:setop_incomplete",))
            for sig, detail in check_incomplete_setop(case):
                col.violation(sig, case, detail)
        for case in cte_cases():
            col.case(case, True, classes=("family:cte",))
            for sig, detail in check_cte(case):
                col.violation(sig, case, detail)
        col.notes["setop_family"] = "enumerated completely"
        return col
    nex = 250 if tier == "quick" else 3000

    @seed(sd)
    @settings(max_examples=nex, database=None, deadline=None, suppress_health_check=list(HealthCheck), report_multiple_bugs=False)
    @given(case_st())
    def prop(case):
        try:
            prog.build_program(case["program"])
        except Exception as e:
            col.count("build_raised:" + type(e).__name__)
            return
        res = check(case)
        p = case["program"]
        col.case(case, nontrivial(case), classes=("kind:" + p.get("kind", "?"), "cls:" + p["cls"], "orders:%d" % len(case["orders"]), "subsets:%d" % len(case["subsets"])))
        for sig, detail in res:
            col.violation(sig, case, detail)

    prop()
    return col
