"""C03 - SQLite-dialect statements mean what the builder calls say (engine-checked).

Domain   a semantic description (SA) of a statement over the fixed schema t1(id PK, a, b, s), t2(id PK, a, c, s), t3(k UNIQUE, v) is
         generated; from it BOTH the builder program (run through SQLLiteQuery) and an independent reference text are derived.  The
         subset: expression projection (arithmetic, unary minus, comparisons, AND/OR/NOT, IS NULL, IN list, IN subquery, BETWEEN, LIKE,
         CASE, COALESCE/ABS/LENGTH/UPPER/LOWER/NULLIF), WHERE, inner/left/cross joins (ON, USING), aliased tables and self-joins,
         subqueries in FROM and IN, GROUP BY/HAVING with SUM/COUNT/MIN/MAX/AVG (DISTINCT, FILTER), DISTINCT, ORDER BY, LIMIT/OFFSET,
         unwrapped set operations, window functions, INSERT (rows, columns, INSERT..SELECT, REPLACE), UPDATE (SET, WHERE, UPDATE..FROM),
         DELETE, upsert (DO NOTHING / DO UPDATE incl. EXCLUDED form and WHERE); database contents are generated per case.
Oracle   the reference writer puts every operator application in its own brackets, qualifies every column by its source, writes
         GROUP BY / ORDER BY items as full expressions and clauses in SQLite's order.  The engine must accept the library's SQL; both
         texts are executed on K generated databases: queries compare row sequences (ORDER BY is made total over the projected row
         whenever order matters), DML compares the final contents of every table.  EXPLAIN bytecode equality is recorded.
"""
from __future__ import annotations

import json
import sqlite3
import zlib

from hypothesis import HealthCheck, given, seed, settings, strategies as st

from pbt import lex, prog
from pbt.core import Collector, HarnessError, mksig

ID = "C03"
RULE = ("semantic statement descriptions -> (builder program through SQLLiteQuery, independent fully bracketed / qualified reference text) x 3 generated databases "
        "per case (0-6 rows per table with NULLs, duplicates, zeros, negatives); aggregates with independent DISTINCT / FILTER, aggregate-only selects with HAVING, framed window functions (ROWS / RANGE, offsets 0-3). Non-trivial = >= 2 clause kinds beyond SELECT/FROM or nesting >= 2, and the reference "
        "returns rows on some database (queries) or changes a row (DML); distinct = distinct (statement, databases). Set operations also take a set operation as their operand (a.op(b.op2(c)): the grouping must survive).")
ASSUMPTIONS = [
    "SQLite 3.40 is the ground truth; the reference writer shares no code with the library's get_sql",
    "LIMIT/OFFSET only with an ORDER BY that is total over the projected row; window ORDER BY ends with the primary key; grouped queries select only group keys and aggregates",
    "select / table aliases are disjoint from column names (a collision changes what GROUP BY resolves to, which is not the builder's doing)",
    "a*(b/c) (known C06 finding, pinned by a test) is not generated: counted under avoided_known",
]

TABLES = {"t1": ["id", "a", "b", "s"], "t2": ["id", "a", "c", "s"], "t3": ["k", "v"]}
INTCOLS = {"t1": ["id", "a", "b"], "t2": ["id", "a", "c"], "t3": ["k", "v"]}
TEXTCOLS = {"t1": ["s"], "t2": ["s"], "t3": []}
SCHEMA = ["CREATE TABLE t1 (id INTEGER PRIMARY KEY, a INT, b INT, s TEXT)", "CREATE TABLE t2 (id INTEGER PRIMARY KEY, a INT, c INT, s TEXT)", "CREATE TABLE t3 (k INT UNIQUE, v INT)"]


# ---- generation of the semantic description -------------------------------------------------------------------------------


class G:
    def __init__(self, draw):
        self.draw = draw
        self.nkey = 0
        self.nalias = 0
        self.avoided = 0
        self.focus = None  # "window": the next top-level select is a single-source one with a framed window function

    def d(self, s):
        return self.draw(s)

    def key(self):
        self.nkey += 1
        return "s%d" % self.nkey

    def alias(self, p="al"):
        self.nalias += 1
        return "%s%d" % (p, self.nalias)

    # scope: list of (key, {"int": [...], "text": [...]})
    def icol(self, scope):
        cands = [(k, c) for k, cols in scope for c in cols["int"]]
        k, c = self.d(st.sampled_from(cands))
        return ["col", k, c]

    def tcol(self, scope):
        cands = [(k, c) for k, cols in scope for c in cols["text"]]
        if not cands:
            return None
        k, c = self.d(st.sampled_from(cands))
        return ["col", k, c]

    def const(self):
        return ["k", self.d(st.sampled_from([0, 1, 2, 3, 5, -1, -2, 10]))]

    def ne(self, scope, depth=2):
        c = self.d(st.integers(0, 13))
        if depth <= 0 or c < 4:
            return self.icol(scope)
        if c == 4:
            return self.const()
        if c in (5, 6, 7):
            op = self.d(st.sampled_from(["add", "sub", "mul", "div"]))
            l, r = self.ne(scope, depth - 1), self.ne(scope, depth - 1)
            if op == "mul" and r[0] == "div":
                self.avoided += 1
                op = "add"
            return [op, l, r]
        if c == 8:
            return ["neg", self.ne(scope, depth - 1)]
        if c == 9:
            return ["coalesce", self.ne(scope, depth - 1), self.const()]
        if c == 10:
            return ["abs", self.ne(scope, depth - 1)]
        if c == 11:
            return ["case", self.be(scope, depth - 1), self.ne(scope, depth - 1), self.d(st.booleans()) and self.ne(scope, depth - 1) or None]
        if c == 12:
            t = self.te(scope, 1)
            return ["length", t] if t is not None else self.icol(scope)
        return ["nullif", self.ne(scope, depth - 1), self.const()]

    def te(self, scope, depth=1):
        col = self.tcol(scope)
        if col is None:
            return None
        c = self.d(st.integers(0, 5))
        if depth <= 0 or c < 3:
            return col
        if c == 3:
            return ["upper", col]
        if c == 4:
            return ["lower", col]
        return ["coalesce", col, ["t", self.d(st.sampled_from(["a", "b", ""]))]]

    def be(self, scope, depth=2, allow_sub=True):
        c = self.d(st.integers(0, 12))
        if depth > 0 and c >= 10:
            return [self.d(st.sampled_from(["and", "or"])), self.be(scope, depth - 1, allow_sub), self.be(scope, depth - 1, allow_sub)]
        if depth > 0 and c == 9:
            return ["not", self.be(scope, depth - 1, allow_sub)]
        if c in (0, 1, 2):
            return [self.d(st.sampled_from(["eq", "ne", "gt", "ge", "lt", "le"])), self.ne(scope, 1), self.ne(scope, 1)]
        if c == 3:
            return [self.d(st.sampled_from(["isnull", "notnull"])), self.ne(scope, 1)]
        if c == 4:
            return [self.d(st.sampled_from(["in", "notin"])), self.ne(scope, 1), [self.const() for _ in range(self.d(st.integers(1, 3)))]]
        if c == 5:
            return ["between", self.ne(scope, 1), self.const(), self.const()]
        if c == 6:
            t = self.te(scope, 1)
            if t is not None:
                return [self.d(st.sampled_from(["like", "not_like"])), t, ["t", self.d(st.sampled_from(["a%", "%", "_", "A%"]))]]
        if c == 7:
            t = self.te(scope, 0)
            if t is not None:
                return ["eq", t, ["t", self.d(st.sampled_from(["a", "b", ""]))]]
        if c == 8 and allow_sub and depth > 0:
            sub = self.select(depth=0, ncols=1, want_int=True)
            return ["insub", self.ne(scope, 1), sub]
        return ["gt", self.ne(scope, 1), self.const()]

    def agg(self, scope):
        # DISTINCT and FILTER are independent options (a seeded change lost FILTER only when DISTINCT was set)
        c = self.d(st.integers(0, 9))
        x = self.ne(scope, 1)
        flt = self.be(scope, 1, allow_sub=False) if self.d(st.integers(0, 2)) == 0 else None
        if c == 0:
            return ["agg", "COUNT", None, False, flt]
        name = self.d(st.sampled_from(["SUM", "COUNT", "MIN", "MAX", "AVG", "COUNT", "SUM"]))
        distinct = name in ("SUM", "COUNT") and self.d(st.integers(0, 2)) == 0
        return ["agg", name, x, distinct, flt]

    def table_src(self, names=("t1", "t2", "t3"), force_alias=False):
        t = self.d(st.sampled_from(names))
        alias = self.alias("x") if force_alias or self.d(st.integers(0, 2)) == 0 else None
        return {"key": self.key(), "table": t, "alias": alias}

    def cols_of(self, src):
        if "table" in src:
            return {"int": list(INTCOLS[src["table"]]), "text": list(TEXTCOLS[src["table"]])}
        return {"int": [it["alias"] for it in src["sub"]["items"] if it["type"] == "int"], "text": [it["alias"] for it in src["sub"]["items"] if it["type"] == "text"]}

    def select(self, depth=1, ncols=None, want_int=False, all_aliased=False, allow_setop=True, first_int=False):
        sources = []
        used_names = set()
        focus, self.focus = self.focus, None
        if focus == "window":
            allow_setop = False
        want_setop = allow_setop and depth > 0 and not want_int and self.d(st.integers(0, 4)) == 0
        if focus in ("setop", "setop_order") and allow_setop and not want_int:
            want_setop = True
        if want_setop:
            all_aliased = True  # a compound ORDER BY can only name result columns
        if depth > 0 and focus != "window" and self.d(st.integers(0, 5)) == 0:
            sub = self.select(depth=depth - 1, all_aliased=True, allow_setop=False, first_int=True)
            src = {"key": self.key(), "sub": sub, "alias": self.alias("q")}
        else:
            src = self.table_src()
        sources.append(src)
        used_names.add(src.get("alias") or src.get("table"))
        joins = []
        for _ in range(self.d(st.sampled_from([0, 0, 1, 1, 2])) if focus != "window" else 0):
            js = self.table_src()
            nm = js["alias"] or js["table"]
            if nm in used_names:
                js["alias"] = self.alias("x")
                nm = js["alias"]
            used_names.add(nm)
            how = self.d(st.sampled_from(["inner", "left", "cross", "inner", "left", "right", "full"]))
            scope_now = [(s["key"], self.cols_of(s)) for s in sources + [j["src"] for j in joins] + [js]]
            j = {"src": js, "how": how, "on": None, "using": None}
            # the same join can be asked for in several ways: join(item, <enum member>) or one of the shortcut methods
            j["spell"] = self.d(st.sampled_from(SPELLINGS[how]))
            if how != "cross":
                left_cols = set(c for s in sources + [x["src"] for x in joins] for c in self.cols_of(s)["int"])
                common = [c for c in self.cols_of(js)["int"] if c in left_cols]
                if common and self.d(st.integers(0, 4)) == 0 and len(sources) + len(joins) == 1:
                    j["using"] = [self.d(st.sampled_from(common))]
                else:
                    lhs = self.icol([(s["key"], self.cols_of(s)) for s in sources + [x["src"] for x in joins]])
                    rhs = self.icol([(js["key"], self.cols_of(js))])
                    on = ["eq", lhs, rhs]
                    if self.d(st.integers(0, 3)) == 0:
                        on = ["and", on, self.be(scope_now, 1, allow_sub=False)]
                    j["on"] = on
            joins.append(j)
        all_src = sources + [j["src"] for j in joins]
        scope = [(s["key"], self.cols_of(s)) for s in all_src]
        gmode = self.d(st.integers(0, 7)) if focus != "window" else 7
        grouped = gmode in (0, 1) and not want_int
        aggonly = gmode == 2 and not want_int  # aggregates over the whole input: no GROUP BY, HAVING still allowed
        n = ncols or self.d(st.integers(1, 3))
        items = []
        group = []
        having = None
        if grouped:
            gk = self.ne(scope, 1) if self.d(st.booleans()) else self.icol(scope)
            if not _has_col(gk):
                gk = self.icol(scope)  # GROUP BY <integer literal> is a column position in SQLite
            group = [gk]
            items.append({"e": gk, "alias": self.alias(), "type": "int"})
            for _ in range(max(1, n - 1)):
                items.append({"e": self.agg(scope), "alias": self.alias() if all_aliased or self.d(st.booleans()) else None, "type": "int"})
            if self.d(st.booleans()):
                having = [self.d(st.sampled_from(["gt", "le"])), self.agg(scope), self.const()]
        elif aggonly:
            for _ in range(n):
                items.append({"e": self.agg(scope), "alias": self.alias() if all_aliased or self.d(st.booleans()) else None, "type": "int"})
            if self.d(st.booleans()):
                having = [self.d(st.sampled_from(["gt", "le", "ge", "lt"])), self.agg(scope), self.const()]
        else:
            for i in range(n):
                if want_int or (first_int and i == 0) or self.d(st.integers(0, 3)) > 0:
                    e, ty = self.ne(scope, 2), "int"
                else:
                    t = self.te(scope, 1)
                    e, ty = (t, "text") if t is not None else (self.ne(scope, 2), "int")
                if not _has_col(e):
                    # a bare literal in ORDER BY would be read by SQLite as a column position - not a builder question
                    e, ty = self.icol(scope), "int"
                items.append({"e": e, "alias": self.alias() if all_aliased or self.d(st.booleans()) else None, "type": ty})
            if (focus == "window" or self.d(st.integers(0, 7)) < 2) and not want_int and not want_setop and "table" in sources[0]:
                part = self.icol(scope)
                pk = ["col", sources[0]["key"], TABLES[sources[0]["table"]][0]]
                wname = self.d(st.sampled_from(["ROW_NUMBER", "RANK", "SUM", "MAX"] if focus != "window" else ["SUM", "MAX", "SUM"]))
                warg = self.icol(scope) if wname in ("SUM", "MAX") else None
                orders = [[self.icol(scope), self.d(st.sampled_from([None, "asc", "desc"]))]]
                if not joins:
                    orders.append([pk, None])
                frame = None
                if not joins and wname in ("SUM", "MAX") and (focus == "window" or self.d(st.integers(0, 3)) > 0):
                    # a frame only where the window order is total (pk appended above): ROWS with offsets, RANGE with the unbounded / current edges
                    unit = self.d(st.sampled_from(["rows", "rows", "rows", "range"]))
                    nn = st.sampled_from([0, 0, 1, 2, 3])
                    lows = [["preceding", None], ["current"]] + ([["preceding", self.d(nn)]] if unit == "rows" else [])
                    ups = [["following", None], ["current"]] + ([["following", self.d(nn)]] if unit == "rows" else [])
                    lo = self.d(st.sampled_from(lows))
                    up = self.d(st.sampled_from(ups + [None]))
                    frame = [unit, lo, up]
                if frame and self.d(st.integers(0, 4)) == 0:
                    # the frame alone: neither over() nor orderby() is called, and the whole-partition frame keeps the result order-free
                    items.append({"e": ["win", wname, warg, [], [], [unit, ["preceding", None], ["following", None]], "bare"], "alias": self.alias("w"), "type": "int"})
                elif not joins or wname in ("RANK", "SUM", "MAX"):
                    items.append({"e": ["win", wname, warg, [part] if self.d(st.booleans()) else [], orders, frame], "alias": self.alias("w"), "type": "int"})
        where = self.be(scope, 2, allow_sub=depth > 0) if self.d(st.integers(0, 9)) < 6 else None
        distinct = (not grouped) and (not aggonly) and self.d(st.integers(0, 5)) == 0 and not any(it["e"][0] == "win" for it in items)
        order = []
        limit = offset = None
        if self.d(st.integers(0, 9)) < 4 or focus == "setop_order":
            # total order over the projected row: every select item, in a random rotation
            k = self.d(st.integers(0, len(items) - 1))
            idx = list(range(k, len(items))) + list(range(k))
            for i in idx:
                order.append([i, self.d(st.sampled_from([None, "asc", "desc"]))])
            if self.d(st.booleans()):
                limit = self.d(st.sampled_from([0, 1, 2, 3]))
            if self.d(st.integers(0, 4)) < 2:
                offset = self.d(st.sampled_from([0, 1, 2]))
        setop = None
        by_name = first_limit = None
        setop_ok = (not order) or all(it["alias"] for it in items)  # a compound ORDER BY can only name result columns (aliases)
        if want_setop and setop_ok and not any(it["e"][0] == "win" for it in items):
            other = self.select(depth=0, ncols=len(items), allow_setop=False)
            if not other["order"] and len(other["items"]) == len(items):
                setop = [self.d(st.sampled_from(["union", "union_all", "intersect", "except_of"])), other]
                if order and not joins and len(sources) == 1:
                    # (single source: SQLite matches an un-aliased result column of a compound by resolving the name inside the operands,
                    # which a join can make ambiguous - a question of the engine's name matching, not of the builder)
                    # a plain column of the first operand may go without an alias: the compound ORDER BY then names the result column by the
                    # column's own name - given as the column object (whose table carries an alias inside the operand) or as a string
                    names = [it["alias"] or (it["e"][2] if it["e"][0] == "col" else None) for it in items]
                    for it in items:
                        if it["e"][0] == "col" and names.count(it["e"][2]) == 0 and self.d(st.booleans()):
                            it["alias"] = None
                            names.append(it["e"][2])
                    if any(it["alias"] is None for it in items):
                        by_name = self.d(st.booleans())
                        # the first operand with a row limit of its own (0 or more than it can hold: no order needed)
                        first_limit = self.d(st.sampled_from([None, 0, 1000, 1000]))
                # the operand may itself be a set operation, passed as one object: a.op(b.op2(c)) means a OP (b OP2 c)
                if other["limit"] is None and other["offset"] is None and (focus == "setop" or self.d(st.integers(0, 2)) == 0):
                    third = self.select(depth=0, ncols=len(items), allow_setop=False)
                    if not third["order"] and third["limit"] is None and third["offset"] is None and len(third["items"]) == len(items):
                        other["setop"] = [self.d(st.sampled_from(["union", "union_all", "intersect", "except_of"])), third]
        out = {"kind": "select", "sources": sources, "joins": joins, "items": items, "distinct": distinct, "where": where, "group": group, "having": having,
               "order": order, "limit": limit, "offset": offset, "setop": setop}
        if setop and self.d(st.integers(0, 2)) == 0:
            out["setop_operator"] = True  # the operators + (UNION) and * (UNION ALL) instead of the methods
        if by_name is not None:
            out["setop_order_by_name"] = by_name
            out["first_limit"] = first_limit
        return out

    def dml(self):
        kind = self.d(st.sampled_from(["insert", "insert", "insert_select", "upsert", "upsert_select", "update", "update", "update_from", "update_join", "delete"]))
        if kind in ("insert", "upsert"):
            t = "t3" if kind == "upsert" else self.d(st.sampled_from(["t1", "t3"]))
            cols = TABLES[t]
            use_cols = self.d(st.booleans())
            ncol = len(cols)
            if use_cols and t == "t1":
                ncol = self.d(st.integers(2, 4))
            rows = []
            for _ in range(self.d(st.integers(1, 2))):
                row = []
                for c in cols[:ncol]:
                    if c == "s":
                        row.append(["t", self.d(st.sampled_from(["a", "b", "z"]))])
                    elif c in ("id", "k"):
                        row.append(["k", self.d(st.sampled_from([1, 2, 3, 7, 8, 9]))])
                    else:
                        row.append(self.d(st.sampled_from([["k", 5], ["k", -1], ["null"], ["k", 0]])))
                rows.append(row)
            sa = {"kind": kind, "table": t, "columns": cols[:ncol] if (use_cols or ncol != len(cols)) else None, "rows": rows, "replace": kind == "insert" and self.d(st.integers(0, 4)) == 0}
            if kind == "insert" and self.d(st.integers(0, 5)) == 0:
                sa["table_alias"] = "tg"  # the Table object carries an alias (INSERT INTO t AS tg is SQLite's and PostgreSQL's form)
            if kind == "upsert":
                scope = [("tgt", {"int": ["k", "v"], "text": []})]
                action = self.d(st.sampled_from(["nothing", "update_value", "update_excluded", "update_value"]))
                sa["conflict"] = {"action": action, "value": self.ne(scope, 1) if action == "update_value" else None,
                                  "where": self.be(scope, 1, allow_sub=False) if action != "nothing" and self.d(st.booleans()) else None}
            return sa
        if kind in ("insert_select", "upsert_select"):
            sel = self.select(depth=0, ncols=2, want_int=True, allow_setop=False)
            sel["order"], sel["limit"], sel["offset"], sel["distinct"] = [], None, None, False
            sa = {"kind": kind, "table": "t3", "columns": ["k", "v"] if (kind == "upsert_select" or self.d(st.booleans())) else None, "select": sel}
            if kind == "upsert_select":
                sa["conflict"] = {"action": self.d(st.sampled_from(["nothing", "update_excluded"]))}
            return sa
        if kind in ("update", "update_from", "update_join"):
            t = self.d(st.sampled_from(["t1", "t2"]))
            tgt = {"key": self.key(), "table": t, "alias": "tg" if kind == "update" and self.d(st.integers(0, 4)) == 0 else None}
            srcs = [tgt]
            frm = None
            if kind in ("update_from", "update_join"):
                frm = {"key": self.key(), "table": "t3" if self.d(st.booleans()) else ("t2" if t == "t1" else "t1"), "alias": None}
                srcs.append(frm)
            scope = [(s["key"], self.cols_of(s)) for s in srcs]
            sets = []
            for c in self.d(st.lists(st.sampled_from(INTCOLS[t][1:]), min_size=1, max_size=2, unique=True)):
                sets.append([c, self.ne(scope, 2)])
            where = self.be(scope, 2, allow_sub=True) if self.d(st.integers(0, 9)) < 8 else None
            if frm is not None and where is None and kind == "update_from":
                where = ["eq", ["col", tgt["key"], INTCOLS[t][0]], self.icol([(frm["key"], self.cols_of(frm))])]
            on = None
            if kind == "update_join":
                # update(t).join(u).on(t.pk = u.col): the joined table supplies values, the ON condition selects the rows
                on = ["eq", ["col", tgt["key"], INTCOLS[t][0]], self.icol([(frm["key"], self.cols_of(frm))])]
            return {"kind": kind, "target": tgt, "from": frm, "sets": sets, "where": where, "on": on}
        t = self.d(st.sampled_from(["t1", "t2", "t3"]))
        tgt = {"key": self.key(), "table": t, "alias": "tg" if self.d(st.integers(0, 4)) == 0 else None}
        scope = [(tgt["key"], self.cols_of(tgt))]
        return {"kind": "delete", "target": tgt, "where": self.be(scope, 2, allow_sub=True) if self.d(st.integers(0, 9)) < 8 else None}


def _has_col(e):
    if isinstance(e, list):
        if e and e[0] == "col":
            return True
        if e and e[0] == "insub":
            return _has_col(e[1])
        return any(_has_col(x) for x in e)
    return False


def value_st(intlike=True):
    return st.sampled_from([None, -2, -1, 0, 1, 2, 3, 5])


@st.composite
def database(draw):
    db = {}
    ids = draw(st.lists(st.sampled_from([1, 2, 3, 4, 5, 6, 7]), max_size=6, unique=True))
    db["t1"] = [[i, draw(value_st()), draw(value_st()), draw(st.sampled_from([None, "a", "b", "", "A1", "ab"]))] for i in ids]
    ids = draw(st.lists(st.sampled_from([1, 2, 3, 4, 5, 8, 9]), max_size=6, unique=True))
    db["t2"] = [[i, draw(value_st()), draw(value_st()), draw(st.sampled_from([None, "a", "b", "", "A1"]))] for i in ids]
    ks = draw(st.lists(st.sampled_from([1, 2, 3, 5, 7, None]), max_size=5, unique=True))
    db["t3"] = [[k, draw(value_st())] for k in ks]
    return db


def shadow_selects():
    """a select alias that is also the name of a source column: a bare name in ORDER BY / GROUP BY must still mean what the builder call named
    (the column given to orderby(); the aliased expression given to groupby())"""
    def base(items, **kw):
        sa = {"kind": "select", "sources": [{"key": "s0", "table": "t1", "alias": None}], "joins": [], "items": items, "distinct": False, "where": None, "group": [], "having": None,
              "order": [], "limit": None, "offset": None, "setop": None}
        sa.update(kw)
        return sa
    A, B, ID = ["col", "s0", "a"], ["col", "s0", "b"], ["col", "s0", "id"]
    return [
        # ORDER BY the column b while the select list calls something else "b"
        base([{"e": A, "alias": "b", "type": "int"}, {"e": ID, "alias": None, "type": "int"}], order_cols=[[B, None], [ID, None]], shadow="orderby_column"),
        base([{"e": ["neg", A], "alias": "b", "type": "int"}, {"e": ID, "alias": "id", "type": "int"}], order_cols=[[B, "desc"], [ID, None]], shadow="orderby_column"),
        # GROUP BY the aliased expression whose alias is the name of another column
        base([{"e": ["abs", A], "alias": "b", "type": "int"}, {"e": ["agg", "COUNT", None, False, None], "alias": "n", "type": "int"}], group=[["abs", A]], group_by_aliased_item=True,
             order=[[0, None]], shadow="groupby_alias"),
        base([{"e": ["abs", A], "alias": "a", "type": "int"}, {"e": ["agg", "COUNT", None, False, None], "alias": "n", "type": "int"}], group=[["abs", A]], group_by_aliased_item=True,
             order=[[0, None]], shadow="groupby_alias"),
    ]


@st.composite
def case_st(draw):
    if draw(st.integers(0, 24)) == 0:
        sa = json.loads(json.dumps(draw(st.sampled_from(shadow_selects()))))
        return {"sa": sa, "dbs": [draw(database()) for _ in range(3)], "avoided": 0}
    g = G(draw)
    fc = draw(st.integers(0, 11))
    if fc == 0:
        g.focus = "window"
    elif fc == 1:
        g.focus = "setop"  # the next top-level select is a set operation whose operand is a set operation
    elif fc == 2:
        g.focus = "setop_order"  # ... an ordered set operation (result columns named by plain column names, first operand with a limit)
    sa = g.select(depth=draw(st.sampled_from([0, 1, 1, 2]))) if draw(st.integers(0, 9)) < 6 else g.dml()
    dbs = [draw(database()) for _ in range(3)]
    return {"sa": sa, "dbs": dbs, "avoided": g.avoided}


# ---- emitter 1: the builder program ---------------------------------------------------------------------------------------

SPELLINGS = {
    "inner": ["enum:inner", "default", "inner_join"],
    "left": ["enum:left", "enum:left_outer", "left_join", "left_outer_join"],
    "right": ["enum:right", "enum:right_outer", "right_join", "right_outer_join"],
    "full": ["enum:outer", "enum:full_outer", "outer_join", "full_outer_join"],
    "cross": ["enum:cross", "cross_join"],
}
FN = {"coalesce": "Coalesce", "abs": "Abs", "length": "Length", "upper": "Upper", "lower": "Lower", "nullif": "NullIf"}
AGG = {"SUM": "Sum", "COUNT": "Count", "MIN": "Min", "MAX": "Max", "AVG": "Avg"}
WIN = {"ROW_NUMBER": "RowNumber", "RANK": "Rank", "SUM": "Sum", "MAX": "Max"}


def P_expr(e, left=False):
    k = e[0]
    if k == "col":
        return ["col", e[1], e[2]]
    if k == "k":
        return ["vw", ["raw", e[1]]] if left else ["raw", e[1]]
    if k == "t":
        return ["vw", ["raw", e[1]]] if left else ["raw", e[1]]
    if k == "null":
        return ["null"]
    if k in ("add", "sub", "mul", "div"):
        return [k, P_expr(e[1], True), P_expr(e[2])]
    if k == "neg":
        return ["neg", P_expr(e[1], True)]
    if k in FN:
        return ["fn", FN[k], [P_expr(x, i == 0) for i, x in enumerate(e[1:])]]
    if k == "case":
        return ["case", [[P_expr(e[1], True), P_expr(e[2])]], P_expr(e[3]) if e[3] is not None else None]
    if k in ("eq", "ne", "gt", "ge", "lt", "le"):
        if zlib.crc32(json.dumps(e).encode()) % 3 == 0:
            # the comparison's named method (a.gte(b) ...) instead of the operator: one in three, chosen by the expression itself
            return ["call", P_expr(e[1], True), {"eq": "eq", "ne": "ne", "gt": "gt", "ge": "gte", "lt": "lt", "le": "lte"}[k], [P_expr(e[2])]]
        return [k, P_expr(e[1], True), P_expr(e[2])]
    if k in ("and", "or"):
        return [k, P_expr(e[1], True), P_expr(e[2], True)]
    if k == "not":
        if e[1][0] in ("in", "notin", "not") and e[1][0] != "insub":
            # the criterion's own negate() method - the other way to write NOT (IN-list criteria override it)
            return ["call", P_expr(e[1], True), "negate", []]
        return ["not", P_expr(e[1], True)]
    if k in ("isnull", "notnull"):
        return [k, P_expr(e[1], True)]
    if k in ("in", "notin"):
        return [k, P_expr(e[1], True), [P_expr(x) for x in e[2]]]
    if k == "insub":
        return ["in", P_expr(e[1], True), ["q", P_select(e[2])]]
    if k == "between":
        return ["between", P_expr(e[1], True), P_expr(e[2]), P_expr(e[3])]
    if k in ("like", "not_like"):
        return [k, P_expr(e[1], True), P_expr(e[2])]
    if k == "agg":
        _, name, x, distinct, flt = e
        node = ["fn", AGG[name], [P_expr(x, True) if x is not None else ["py", "*"]]]
        if distinct:
            node = ["call", node, "distinct", []]
        if flt is not None:
            node = ["call", node, "filter", [P_expr(flt, True)]]
        return node
    if k == "win":
        name, arg, part, orders = e[1:5]
        frame = e[5] if len(e) > 5 else None
        node = ["an", WIN[name], [P_expr(arg, True)] if arg is not None else []]
        if not (len(e) > 6 and e[6] == "bare"):
            node = ["call", node, "over", [P_expr(p, True) for p in part]]
        for oe, od in orders:
            node = ["call", node, "orderby", [P_expr(oe, True)], ({"order": ["enum", "Order", od]} if od else {})]
        if frame:
            def edge(b):
                return ["currow"] if b[0] == "current" else ["edge", "Preceding" if b[0] == "preceding" else "Following", b[1]]
            node = ["call", node, frame[0], [edge(frame[1])] + ([edge(frame[2])] if frame[2] else [])]
        return node
    raise HarnessError("P_expr %r" % (k,))


def P_sources(sa_sources):
    out = {}
    for s in sa_sources:
        if "table" in s:
            out[s["key"]] = ["tbl", s["table"], None, s["alias"]]
        else:
            out[s["key"]] = ["sub", P_select(s["sub"]), s["alias"]]
    return out


def P_select(sa):
    srcs = P_sources(sa["sources"] + [j["src"] for j in sa["joins"]])
    steps = []
    for s in sa["sources"]:
        steps.append(["from_", [["src", s["key"]]]])
    for j in sa["joins"]:
        spell = j.get("spell") or SPELLINGS[j["how"]][0]
        if spell not in SPELLINGS[j["how"]]:
            raise HarnessError("join spelling %r for %r" % (spell, j["how"]))
        if j["how"] == "cross":
            then = ["cross", []]
        elif j["using"]:
            then = ["using", [["py", c] for c in j["using"]]]
        else:
            then = ["on", [P_expr(j["on"], True)]]
        if spell.startswith("enum:"):
            steps.append(["join", [["src", j["src"]["key"]], ["enum", "JoinType", spell[5:]]], {}, then])
        elif spell == "default":
            steps.append(["join", [["src", j["src"]["key"]]], {}, then])
        else:
            steps.append([spell, [["src", j["src"]["key"]]], {}, then])
    sel = []
    for it in sa["items"]:
        node = P_expr(it["e"], True)
        if it["alias"]:
            node = ["as", node, it["alias"]]
        sel.append(node)
    steps.append(["select", sel])
    if sa["distinct"]:
        steps.append(["distinct", []])
    if sa["where"] is not None:
        steps.append(["where", [P_expr(sa["where"], True)]])
    for gi, ge in enumerate(sa["group"]):
        node = P_expr(ge, True)
        if sa.get("group_by_aliased_item") and gi == 0 and sa["items"][0]["alias"]:
            node = ["as", node, sa["items"][0]["alias"]]  # the very term object that stands, aliased, in the select list
        elif not sa.get("shadow") and zlib.crc32(json.dumps([ge, "g"]).encode()) % 2 == 0:
            named = [it["alias"] for it in sa["items"] if it["alias"] and it["e"] == ge]
            if named:
                node = ["py", named[0]]  # the grouped select item named by its alias as a string: groupby("al1")
        steps.append(["groupby", [node]])
    if sa["having"] is not None:
        steps.append(["having", [P_expr(sa["having"], True)]])
    if sa["setop"]:
        if sa.get("first_limit") is not None:
            steps.append(["limit", [["raw", sa["first_limit"]]]])  # a clause of the FIRST operand: it becomes a unit of its own
        op = sa["setop"][0]
        if sa.get("setop_operator") and op in ("union", "union_all"):
            op = {"union": "__add__", "union_all": "__mul__"}[op]  # q1 + q2, q1 * q2
        steps.append([op, [["q", P_select(sa["setop"][1])]]])
    for i, od in sa["order"]:
        it = sa["items"][i]
        node = P_expr(it["e"], True)
        if it["alias"] and not sa.get("shadow") and zlib.crc32(json.dumps([it, sa["order"]]).encode()) % 3 == 0:
            node = ["py", it["alias"]]  # the select item's alias given as a string: orderby("al1")
        elif it["alias"]:
            node = ["as", node, it["alias"]]
        elif sa["setop"] and sa.get("setop_order_by_name") and it["e"][0] == "col":
            node = ["py", it["e"][2]]
        steps.append(["orderby", [node], ({"order": ["enum", "Order", od]} if od else {})])
    for e, od in sa.get("order_cols") or []:
        steps.append(["orderby", [P_expr(e, True)], ({"order": ["enum", "Order", od]} if od else {})])
    if sa["limit"] is not None:
        steps.append(["limit", [["raw", sa["limit"]]]])
    if sa["offset"] is not None:
        steps.append(["offset", [["raw", sa["offset"]]]])
    return {"cls": "sqlite", "sources": srcs, "steps": steps}


def P_stmt(sa):
    k = sa["kind"]
    if k == "select":
        return P_select(sa)
    if k in ("insert", "upsert"):
        src = {"tgt": ["tbl", sa["table"], None, sa.get("table_alias")]}
        steps = [["into", [["src", "tgt"]]]]
        if sa["columns"]:
            steps.append(["columns", [["py", c] for c in sa["columns"]]])
        rows = [[P_expr(v) for v in row] for row in sa["rows"]]
        m = "replace" if sa.get("replace") else "insert"
        if len(rows) == 1:
            steps.append([m, rows[0]])
        else:
            steps.append([m, [["pytuple", r] for r in rows]])
        if k == "upsert":
            c = sa["conflict"]
            steps.append(["on_conflict", [["py", "k"]]])
            if c["action"] == "nothing":
                steps.append(["do_nothing", []])
            elif c["action"] == "update_excluded":
                steps.append(["do_update", [["py", "v"]]])
            else:
                steps.append(["do_update", [["py", "v"], P_expr(c["value"], True)]])
            if c["where"] is not None:
                steps.append(["where", [P_expr(c["where"], True)]])
        return {"cls": "sqlite", "sources": src, "steps": steps}
    if k in ("insert_select", "upsert_select"):
        p = P_select(sa["select"])
        p["sources"]["tgt"] = ["tbl", sa["table"], None, None]
        head = [["into", [["src", "tgt"]]]]
        if sa["columns"]:
            head.append(["columns", [["py", c] for c in sa["columns"]]])
        p["steps"] = head + p["steps"]
        if k == "upsert_select":
            p["steps"].append(["on_conflict", [["py", "k"]]])
            p["steps"].append(["do_nothing", []] if sa["conflict"]["action"] == "nothing" else ["do_update", [["py", "v"]]])
        return p
    if k in ("update", "update_from", "update_join"):
        srcs = P_sources([sa["target"]] + ([sa["from"]] if sa["from"] else []))
        steps = [["update", [["src", sa["target"]["key"]]]]]
        if k == "update_join":
            steps.append(["join", [["src", sa["from"]["key"]], ["enum", "JoinType", "inner"]], {}, ["on", [P_expr(sa["on"], True)]]])
        elif sa["from"]:
            steps.append(["from_", [["src", sa["from"]["key"]]]])
        for c, e in sa["sets"]:
            steps.append(["set", [["col", sa["target"]["key"], c], P_expr(e, True)]])
        if sa["where"] is not None:
            steps.append(["where", [P_expr(sa["where"], True)]])
        return {"cls": "sqlite", "sources": srcs, "steps": steps}
    if k == "delete":
        srcs = P_sources([sa["target"]])
        steps = [["from_", [["src", sa["target"]["key"]]]], ["delete", []]]
        if sa["where"] is not None:
            steps.append(["where", [P_expr(sa["where"], True)]])
        return {"cls": "sqlite", "sources": srcs, "steps": steps}
    raise HarnessError(k)


# ---- emitter 2: the reference text ------------------------------------------------------------------------------------------

OPS = {"add": "+", "sub": "-", "mul": "*", "div": "/", "eq": "=", "ne": "<>", "gt": ">", "ge": ">=", "lt": "<", "le": "<=", "and": "AND", "or": "OR"}


def Q(name):
    return '"%s"' % name.replace('"', '""')


def R_expr(e, qual):
    k = e[0]
    if k == "col":
        q = qual.get(e[1])
        return (Q(q) + "." if q else "") + Q(e[2])
    if k == "k":
        return "(%d)" % e[1] if e[1] < 0 else "%d" % e[1]
    if k == "t":
        return lex.enc_str(e[1], "sqlite")
    if k == "null":
        return "NULL"
    if k in OPS:
        return "(%s %s %s)" % (R_expr(e[1], qual), OPS[k], R_expr(e[2], qual))
    if k == "neg":
        return "(- %s)" % R_expr(e[1], qual)
    if k in FN:
        return "%s(%s)" % (k.upper(), ", ".join(R_expr(x, qual) for x in e[1:]))
    if k == "case":
        return "(CASE WHEN %s THEN %s%s END)" % (R_expr(e[1], qual), R_expr(e[2], qual), " ELSE " + R_expr(e[3], qual) if e[3] is not None else "")
    if k == "not":
        return "(NOT %s)" % R_expr(e[1], qual)
    if k == "isnull":
        return "(%s IS NULL)" % R_expr(e[1], qual)
    if k == "notnull":
        return "(NOT (%s IS NULL))" % R_expr(e[1], qual)
    if k in ("in", "notin"):
        return "(%s %sIN (%s))" % (R_expr(e[1], qual), "NOT " if k == "notin" else "", ", ".join(R_expr(x, qual) for x in e[2]))
    if k == "insub":
        return "(%s IN (%s))" % (R_expr(e[1], qual), R_select(e[2]))
    if k == "between":
        return "(%s BETWEEN %s AND %s)" % (R_expr(e[1], qual), R_expr(e[2], qual), R_expr(e[3], qual))
    if k in ("like", "not_like"):
        return "(%s %sLIKE %s)" % (R_expr(e[1], qual), "NOT " if k == "not_like" else "", R_expr(e[2], qual))
    if k == "agg":
        _, name, x, distinct, flt = e
        s = "%s(%s%s)" % (name, "DISTINCT " if distinct else "", R_expr(x, qual) if x is not None else "*")
        if flt is not None:
            s += " FILTER (WHERE %s)" % R_expr(flt, qual)
        return s
    if k == "win":
        name, arg, part, orders = e[1:5]
        frame = e[5] if len(e) > 5 else None
        s = "%s(%s) OVER (" % (name, R_expr(arg, qual) if arg is not None else "")
        parts = []
        if part:
            parts.append("PARTITION BY " + ", ".join(R_expr(p, qual) for p in part))
        if orders:
            parts.append("ORDER BY " + ", ".join(R_expr(oe, qual) + (" " + od.upper() if od else "") for oe, od in orders))
        if frame:
            def edge(b):
                if b[0] == "current":
                    return "CURRENT ROW"
                return ("UNBOUNDED" if b[1] is None else "%d" % b[1]) + " " + b[0].upper()
            parts.append(frame[0].upper() + (" BETWEEN %s AND %s" % (edge(frame[1]), edge(frame[2])) if frame[2] else " " + edge(frame[1])))
        return s + " ".join(parts) + ")"
    raise HarnessError("R_expr %r" % (k,))


def R_source(s):
    if "table" in s:
        return Q(s["table"]) + (" AS " + Q(s["alias"]) if s["alias"] else "")
    return "(" + R_select(s["sub"]) + ") AS " + Q(s["alias"])


def qualifiers(srcs):
    return {s["key"]: (s["alias"] or s.get("table")) for s in srcs}


def R_select(sa, top=True):
    srcs = sa["sources"] + [j["src"] for j in sa["joins"]]
    qual = qualifiers(srcs)
    sql = "SELECT " + ("DISTINCT " if sa["distinct"] else "")
    sql += ", ".join(R_expr(it["e"], qual) + (" AS " + Q(it["alias"]) if it["alias"] else "") for it in sa["items"])
    sql += " FROM " + ", ".join(R_source(s) for s in sa["sources"])
    for j in sa["joins"]:
        kw = {"inner": "INNER JOIN", "left": "LEFT JOIN", "cross": "CROSS JOIN", "right": "RIGHT JOIN", "full": "FULL OUTER JOIN"}[j["how"]]
        sql += " %s %s" % (kw, R_source(j["src"]))
        if j["using"]:
            sql += " USING (%s)" % ", ".join(Q(c) for c in j["using"])
        elif j["on"] is not None:
            sql += " ON " + R_expr(j["on"], qual)
    if sa["where"] is not None:
        sql += " WHERE " + R_expr(sa["where"], qual)
    if sa["group"]:
        sql += " GROUP BY " + ", ".join(R_expr(g, qual) for g in sa["group"])
    if sa["having"] is not None:
        sql += " HAVING " + R_expr(sa["having"], qual)
    if sa["setop"]:
        op = {"union": "UNION", "union_all": "UNION ALL", "intersect": "INTERSECT", "except_of": "EXCEPT"}[sa["setop"][0]]
        other = sa["setop"][1]
        if sa.get("first_limit") is not None:
            sql = "SELECT * FROM (%s LIMIT %d)" % (sql, sa["first_limit"])
        # SQLite has no bracketed operands: a compound operand is written as a FROM-subquery
        sql += " %s %s" % (op, ("SELECT * FROM (%s)" % R_select(other)) if (other.get("setop") or other["limit"] is not None or other["offset"] is not None) else R_select(other))
    order_parts = ["%d%s" % (i + 1, " " + od.upper() if od else "") for i, od in sa["order"]]
    order_parts += ["%s%s" % (R_expr(e, qual), " " + od.upper() if od else "") for e, od in (sa.get("order_cols") or [])]  # always qualified: the COLUMN is meant
    if order_parts:
        # positions are unambiguous for plain and compound selects alike
        sql += " ORDER BY " + ", ".join(order_parts)
    if sa["limit"] is not None or sa["offset"] is not None:
        sql += " LIMIT %d" % (sa["limit"] if sa["limit"] is not None else -1)
        if sa["offset"] is not None:
            sql += " OFFSET %d" % sa["offset"]
    return sql


def R_stmt(sa):
    k = sa["kind"]
    if k == "select":
        return R_select(sa)
    if k in ("insert", "upsert"):
        sql = ("REPLACE" if sa.get("replace") else "INSERT") + " INTO " + Q(sa["table"]) + (" AS " + Q(sa["table_alias"]) if sa.get("table_alias") else "")
        if sa["columns"]:
            sql += " (" + ", ".join(Q(c) for c in sa["columns"]) + ")"
        sql += " VALUES " + ", ".join("(" + ", ".join(R_expr(v, {}) for v in row) + ")" for row in sa["rows"])
        if k == "upsert":
            c = sa["conflict"]
            sql += ' ON CONFLICT ("k")'
            qual = {"tgt": sa["table"]}
            if c["action"] == "nothing":
                sql += " DO NOTHING"
            elif c["action"] == "update_excluded":
                sql += ' DO UPDATE SET "v" = excluded."v"'
            else:
                sql += ' DO UPDATE SET "v" = ' + R_expr(c["value"], qual)
            if c["where"] is not None and c["action"] != "nothing":
                sql += " WHERE " + R_expr(c["where"], qual)
        return sql
    if k in ("insert_select", "upsert_select"):
        sql = "INSERT INTO " + Q(sa["table"])
        if sa["columns"]:
            sql += " (" + ", ".join(Q(c) for c in sa["columns"]) + ")"
        sql += " " + R_select(sa["select"])
        if k == "upsert_select":
            if sa["select"]["where"] is None and not sa["select"]["group"]:
                sql += " WHERE true"  # SQLite's documented way out of the parsing ambiguity between a join constraint and ON CONFLICT
            sql += ' ON CONFLICT ("k") ' + ("DO NOTHING" if sa["conflict"]["action"] == "nothing" else 'DO UPDATE SET "v" = excluded."v"')
        return sql
    if k in ("update", "update_from", "update_join"):
        srcs = [sa["target"]] + ([sa["from"]] if sa["from"] else [])
        qual = qualifiers(srcs)
        sql = "UPDATE " + R_source(sa["target"]) + " SET " + ", ".join("%s = %s" % (Q(c), R_expr(e, qual)) for c, e in sa["sets"])
        if sa["from"]:
            sql += " FROM " + R_source(sa["from"])
        conds = ([sa["on"]] if sa.get("on") is not None else []) + ([sa["where"]] if sa["where"] is not None else [])
        if conds:
            sql += " WHERE " + " AND ".join(R_expr(c, qual) for c in conds)
        return sql
    if k == "delete":
        qual = qualifiers([sa["target"]])
        sql = "DELETE FROM " + R_source(sa["target"])
        if sa["where"] is not None:
            sql += " WHERE " + R_expr(sa["where"], qual)
        return sql
    raise HarnessError(k)


# ---- engine -------------------------------------------------------------------------------------------------------------------


def open_db(db):
    con = sqlite3.connect(":memory:")
    for s in SCHEMA:
        con.execute(s)
    for t, rows in db.items():
        if rows:
            con.executemany("INSERT INTO %s VALUES (%s)" % (t, ",".join("?" * len(rows[0]))), rows)
    con.commit()
    return con


def execute(sql, db, is_query):
    con = open_db(db)
    try:
        try:
            cur = con.execute(sql)
            rows = cur.fetchall()
        except sqlite3.Error as e:
            msg = str(e)
            cls = "parse" if any(p in msg for p in ("syntax error", "unrecognized token", "incomplete input")) else (
                "resolution" if any(p in msg for p in ("no such column", "no such table", "ambiguous column")) else "runtime")
            return ("err", cls, msg)
        if is_query:
            return ("ok", rows)
        dump = {t: sorted(con.execute("SELECT * FROM %s" % t).fetchall(), key=repr) for t in TABLES}
        return ("ok", dump)
    finally:
        con.close()


def explain(sql):
    con = open_db({})
    try:
        return [tuple(r[1:7]) for r in con.execute("EXPLAIN " + sql).fetchall()]
    except sqlite3.Error:
        return None
    finally:
        con.close()


def rows_equal(a, b):
    if len(a) != len(b):
        return False
    for ra, rb in zip(a, b):
        if len(ra) != len(rb):
            return False
        for x, y in zip(ra, rb):
            if isinstance(x, float) or isinstance(y, float):
                if x is None or y is None or abs(x - y) > 1e-9 * max(1.0, abs(x), abs(y)):
                    if not (x is None and y is None):
                        return False
            elif x != y:
                return False
    return True


def check(case, stats=None):
    sa = case["sa"]
    is_query = sa["kind"] == "select"
    try:
        ref = R_stmt(sa)
        p = P_stmt(sa)
    except HarnessError:
        raise
    try:
        q = prog.build_program(p)
        sql = q.get_sql(prog.sql_context("sqlite"))
    except Exception as e:
        return [(mksig(sa["kind"], "build_raises", type(e).__name__), "the builder calls raised %r ; reference %r" % (e, ref))], None
    info = {"sql": sql, "ref": ref, "nonempty": False, "bytecode_equal": False}
    ordered = bool(is_query and (sa["order"] or sa.get("order_cols")))
    for db in case["dbs"]:
        a = execute(ref, db, is_query)
        b = execute(sql, db, is_query)
        if a[0] == "err":
            if a[1] in ("parse", "resolution"):
                raise HarnessError("reference text is rejected by SQLite (%s): %r" % (a[2], ref))
            if b[0] == "err":
                continue  # both fail at run time (constraint ...)
            return [(mksig(sa["kind"], "outcome_differs", "reference_raises"), "reference %r fails with %s but %r runs" % (ref, a[2], sql))], info
        if b[0] == "err":
            kind = "engine_reject" if b[1] in ("parse", "resolution") else "outcome_differs"
            tag = "|setop_order_by_column_name" if sa["kind"] == "select" and feature(sa) == "setop_order_by_column_name" else ""
            return [(mksig(sa["kind"], kind, b[1]) + dml_tag(sa) + tag, "SQLite: %s for %r ; the reference %r runs" % (b[2], sql, ref))], info
        if is_query:
            ra, rb = a[1], b[1]
            if ra:
                info["nonempty"] = True
            if not ordered:
                ra, rb = sorted(ra, key=repr), sorted(rb, key=repr)
            if not rows_equal(ra, rb):
                return [(mksig(sa["kind"], "rows_differ", "ordered" if ordered else "multiset", feature(sa)), "on %r: library %r -> %r ; reference %r -> %r" % (db, sql, b[1][:6], ref, a[1][:6]))], info
        else:
            before = {t: sorted(map(tuple, rows), key=repr) for t, rows in db.items()}
            if a[1] != before:
                info["nonempty"] = True
            if a[1] != b[1]:
                return [(mksig(sa["kind"], "tables_differ"), "on %r: after %r the tables are %r ; after the reference %r they are %r" % (db, sql, b[1], ref, a[1]))], info
    ea, eb = explain(ref), explain(sql)
    info["bytecode_equal"] = ea is not None and ea == eb
    return [], info


def dml_tag(sa):
    """narrows the signature of an engine rejection to the construct that provokes it (nothing for the plain shapes)"""
    if sa["kind"] == "select":
        return ""
    tgt = sa.get("target") or {}
    if tgt.get("alias") or sa.get("table_alias"):
        return "|aliased_target"
    if sa["kind"] == "upsert_select":
        sel = sa["select"]
        return "|select_without_where" if sel["where"] is None else ""
    return ""


def feature(sa):
    """the most specific construct of a select (part of the rows_differ signature: one signature per kind of construct)"""
    if sa["kind"] != "select":
        return sa["kind"]
    text = json.dumps(sa)
    if sa["setop"] and sa["setop"][1].get("setop"):
        return "nested_setop_operand"
    if sa["setop"] and "setop_order_by_name" in sa:
        return "setop_order_by_column_name"
    if sa.get("shadow"):
        return "alias_shadows_column:" + sa["shadow"]
    wins = [it["e"] for it in sa["items"] if it["e"][0] == "win"]
    if any(len(w) > 6 for w in wins):
        return "window_frame_alone"
    if any(len(w) > 5 and w[5] for w in wins):
        return "window_frame"
    if wins:
        return "window"
    if sa["having"] and not sa["group"]:
        return "having_without_group"
    if '"agg"' in text:
        return "aggregate"
    for f, name in (("setop", "setop"), ("group", "group")):
        if sa[f]:
            return name
    if any("sub" in s_ for s_ in sa["sources"]):
        return "from_subquery"
    if '"insub"' in text:
        return "in_subquery"
    if sa["joins"]:
        return "join"
    return "plain"


def clause_kinds(sa):
    if sa["kind"] != "select":
        return 3
    n = sum(1 for k in ("where", "having", "setop", "limit", "offset") if sa[k] is not None and sa[k] != [])
    n += (1 if sa["joins"] else 0) + (1 if sa["group"] else 0) + (1 if sa["order"] else 0) + (1 if sa["distinct"] else 0)
    n += sum(1 for s in sa["sources"] if "sub" in s)
    return n


def check_case(case):
    res, _ = check(case)
    return res


def _literal_positions(sa):
    """ORDER BY / GROUP BY items that are bare literals would be column positions in SQLite: not part of the domain"""
    if isinstance(sa, dict):
        if sa.get("kind") == "select":
            for i, _ in sa.get("order", []):
                if not _has_col(sa["items"][i]["e"]):
                    return True
            if any(not _has_col(g) for g in sa.get("group", [])):
                return True
        return any(_literal_positions(v) for v in sa.values())
    if isinstance(sa, list):
        return any(_literal_positions(v) for v in sa)
    return False


def valid_case(case):
    try:
        sa = case["sa"]
        if _literal_positions(sa):
            return False
        if sa.get("shadow") and sa not in shadow_selects():
            return False  # the hand-written alias / column collisions stay as they are (only the databases shrink)
        if sa["kind"] == "update_join" and not (isinstance(sa.get("on"), list) and sa["on"][0] == "eq" and sa["on"][1][0] == "col" and sa["on"][2][0] == "col" and sa["from"]):
            return False  # the generator links the target's key to a column of the joined table
        ref = R_stmt(sa)
        P_stmt(sa)
        if len(case["dbs"]) < 1:
            return False
        for db in case["dbs"]:
            if set(db) != set(TABLES):
                return False
            r = execute(ref, db, sa["kind"] == "select")
            if r[0] == "err" and r[1] in ("parse", "resolution"):
                return False
        return True
    except (Exception, HarnessError):
        return False


def shards(tier, sd):
    n = 8 if tier == "quick" else 32
    return [(tier, sd * 1000 + k) for k in range(n)]


def run_shard(shard):
    tier, sd = shard
    col = Collector()
    nex = 300 if tier == "quick" else 5000

    @seed(sd)
    @settings(max_examples=nex, database=None, deadline=None, suppress_health_check=list(HealthCheck), report_multiple_bugs=False)
    @given(case_st())
    def prop(case):
        res, info = check(case)
        sa = case["sa"]
        nt = bool(info and info["nonempty"] and clause_kinds(sa) >= 2)
        classes = ["kind:" + sa["kind"]]
        if info:
            classes.append("bytecode_equal" if info["bytecode_equal"] else "bytecode_differs")
        if sa["kind"] == "select":
            for f in ("joins", "group", "order", "setop", "distinct", "having"):
                if sa[f]:
                    classes.append("has:" + f)
            if sa["setop"] and sa["setop"][1].get("setop"):
                classes.append("has:nested_setop_operand")
            if sa["setop"] and "setop_order_by_name" in sa:
                classes.append("has:setop_order_by_column_name")
            if any("sub" in s for s in sa["sources"]):
                classes.append("has:from_subquery")
            aggs = [it["e"] for it in sa["items"] if it["e"][0] == "agg"] + ([sa["having"][1]] if sa["having"] and sa["having"][1][0] == "agg" else [])
            if any(a[3] and a[4] is not None for a in aggs):
                classes.append("has:agg_distinct_filter")
            if sa["having"] and not sa["group"]:
                classes.append("has:having_without_group")
            if any(it["e"][0] == "win" and len(it["e"]) > 5 and it["e"][5] for it in sa["items"]):
                classes.append("has:window_frame")
            if any(it["e"][0] == "win" and len(it["e"]) > 6 for it in sa["items"]):
                classes.append("has:window_frame_alone")
            if any(it["e"][0] == "win" for it in sa["items"]):
                classes.append("has:window")
            if '"insub"' in json.dumps(sa):
                classes.append("has:in_subquery")
        col.count("avoided_known:mul_div", case.get("avoided", 0))
        sample = {"sql": info["sql"], "reference": info["ref"]} if info and nt and len(col.samples) < col.MAX_SAMPLES else None
        col.case(case, nt, classes=classes, sample=sample)
        for sig, detail in res:
            col.violation(sig, case, detail)

    prop()
    return col
