"""C09 - LIMIT/OFFSET render as the dialect's row-limiting clause, values in the right slots.

Domain (enumerated completely): limit in {absent, 0, 3} x offset in {absent, 0, 2} x setter plan (limit/offset in both
orders, slice, fetch_next, overwriting calls) x ORDER BY present/absent x position {top level, FROM subquery, IN subquery,
set-operation operand, the set operation itself} x six classes x {inline, parameterised}; plus TOP (k) for k in {0, 5}.
Oracle: the statement with pagination equals the statement without it plus an inserted token run (the tail); the tail must
match the dialect's row-limiting grammar with the limit / offset values in their slots (placeholders: the values list holds
them at the placeholder's index).  On SQLite the statement is executed against a 10-row table: rows == all_rows[m:m+n].
"""
from __future__ import annotations

import itertools
import sqlite3

from pbt import lex, prog
from pbt.core import Collector, HarnessError, mksig

ID = "C09"
RULE = ("exhaustive product: (limit, offset) in (absent|0|positive)^2 x setter plans (limit/offset both orders, slice, fetch_next, overwrites) x "
        "ORDER BY yes/no x 5 embedding positions x 6 dialect classes x inline/parameterised, plus TOP. Non-trivial = limit or offset present "
        "(both-absent cases only check that no tail is emitted); distinct = distinct enumerated case.")
ASSUMPTIONS = [
    "row-limiting grammars: SQLite/MySQL LIMIT n [OFFSET m] (offset alone needs LIMIT <no-limit sentinel>); PostgreSQL and the generic class [LIMIT n] [OFFSET m]; "
    "SQL Server ORDER BY .. OFFSET m ROWS [FETCH NEXT n ROWS ONLY]; Oracle [OFFSET m ROWS] [FETCH NEXT n ROWS ONLY]",
    "slice [a:b] means offset=a, limit=b (pinned by tests/test_selects.py)",
    "T-SQL forbids TOP together with OFFSET; that combination is not generated",
]

LV, OV = 3, 2
CTXS = prog.CLS_NAMES
POSITIONS = ["top", "from_sub", "in_sub", "setop_operand", "setop_self"]


def plans(L, O, cls):
    """list of (plan name, steps) that leave limit=L, offset=O (None = never set)"""
    out = []
    lim = lambda v: ["limit", [["py", v]]]  # noqa: E731
    off = lambda v: ["offset", [["py", v]]]  # noqa: E731
    if L is None and O is None:
        return [("none", [])]
    if L is not None and O is None:
        out += [("limit", [lim(L)]), ("slice", [["slice", [["slice", None, L]]]]), ("getitem", [["__getitem__", [["slice", None, L]]]]), ("limit_twice", [lim(99), lim(L)])]
        if cls == "mssql":
            out += [("fetch_next", [["fetch_next", [["py", L]]]])]
    elif L is None:
        out += [("offset", [off(O)]), ("slice", [["slice", [["slice", O, None]]]]), ("offset_twice", [off(77), off(O)])]
    else:
        out += [("limit_offset", [lim(L), off(O)]), ("offset_limit", [off(O), lim(L)]), ("slice", [["slice", [["slice", O, L]]]]),
                ("slice_then_limit", [["slice", [["slice", O, 88]]], lim(L)]), ("getitem", [["__getitem__", [["slice", O, L]]]])]
        if cls == "mssql":
            out += [("offset_fetch", [off(O), ["fetch_next", [["py", L]]]]), ("fetch_offset", [["fetch_next", [["py", L]]], off(O)])]
    return out


def inner_steps(orderby, cls=None, unwrapped=False):
    kw = {"wrap_set_operation_queries": ["py", False]} if unwrapped else {}
    st_ = [["from_", [["src", "R"]], kw], ["select", [["col", "R", "id"]]], ["where", [["gt", ["col", "R", "id"], ["raw", 0]]]]]
    if orderby:
        st_.append(["orderby", [["col", "R", "id"]]])
    return st_


def program(cls, position, orderby, pag_steps):
    src = {"R": ["tbl", "r", None, None], "R2": ["tbl", "r2", None, None]}
    # SQLite's grammar has no bracketed set operands: the SQLite programs ask for unwrapped operands (documented switch)
    unwrapped = cls == "sqlite" and position.startswith("setop")
    inner = {"cls": cls, "sources": src, "steps": inner_steps(orderby, cls, unwrapped) + (pag_steps if position != "setop_self" else [])}
    if position == "top":
        return inner
    inner_sub = dict(inner, cls="inherit", sources={})
    if position == "from_sub":
        return {"cls": cls, "sources": src, "steps": [["from_", [["q", inner_sub]]], ["select", [["py", "*"]]]]}
    if position == "in_sub":
        return {"cls": cls, "sources": src, "steps": [["from_", [["src", "R2"]]], ["select", [["col", "R2", "id"]]], ["where", [["in", ["col", "R2", "id"], ["q", inner_sub]]]]]}
    other = {"cls": "inherit", "sources": {}, "steps": [["from_", [["src", "R2"]]], ["select", [["col", "R2", "id"]]]]}
    if position == "setop_operand":
        return {"cls": cls, "sources": src, "steps": inner["steps"] + [["union_all", [["q", other]]]]}
    if position == "setop_self":
        steps = inner_steps(False, cls, unwrapped) + [["union_all", [["q", other]]]]
        if orderby:
            steps.append(["orderby", [["col", "R", "id"]]])
        # set operations only offer limit()/offset()
        return {"cls": cls, "sources": src, "steps": steps + pag_steps}
    raise HarnessError(position)


def norm(tokens):
    return [("param", "?") if t.kind == "param" else t.key for t in tokens]


def split_tail(t0, t1):
    """t1 == t0[:p] + tail + t0[p:] (placeholders compared by kind); -> (p, tail tokens) or None"""
    n0, n1 = norm(t0), norm(t1)
    p = 0
    while p < len(n0) and p < len(n1) and n0[p] == n1[p]:
        p += 1
    rest = len(n0) - p
    if rest > len(n1) - p:
        return None
    if rest and n1[len(n1) - rest:] != n0[p:]:
        return None
    return p, t1[p:len(t1) - rest]


def W(x):
    return ("word", x)


def tail_grammar(cls, L, O, has_orderby, setop):
    """list of acceptable tails; each a list of items: token key | ('L',) | ('O',) | ('SENT',) | ('ZERO',)"""
    Ls, Os = ("L",), ("O",)
    if L is None and O is None:
        return [[]]
    if cls in ("sqlite", "mysql"):
        if L is not None and O is not None:
            return [[W("LIMIT"), Ls, W("OFFSET"), Os]]
        if L is not None:
            return [[W("LIMIT"), Ls]]
        return [[W("LIMIT"), ("SENT",), W("OFFSET"), Os]]
    if cls in ("postgresql", "generic"):
        t = []
        if L is not None:
            t += [W("LIMIT"), Ls]
        if O is not None:
            t += [W("OFFSET"), Os]
        return [t]
    if cls == "mssql":
        t = []
        if not has_orderby:
            t += [W("ORDER"), W("BY"), ("punct", "("), W("SELECT"), ("num", "0"), ("punct", ")")]
        t += [W("OFFSET"), Os if O is not None else ("ZERO",), W("ROWS")]
        if L is not None:
            t += [W("FETCH"), W("NEXT"), Ls, W("ROWS"), W("ONLY")]
        alts = [t]
        if L is None and O == 0:
            alts.append([])  # skipping zero rows may be left out altogether
        return alts
    if cls == "oracle":
        t = []
        if O is not None:
            t += [W("OFFSET"), Os, W("ROWS")]
        if L is not None:
            t += [W("FETCH"), W("NEXT"), Ls, W("ROWS"), W("ONLY")]
        return [t]
    raise HarnessError(cls)


def match_tail(tail, pattern, L, O, tailvals):
    """-> None if ok else failure kind"""
    i = 0
    pi = 0  # index into tailvals (values of placeholders inside the tail, in order)
    for item in pattern:
        if i >= len(tail):
            return "keyword"
        t = tail[i]
        if item in (("L",), ("O",), ("ZERO",)):
            want = L if item == ("L",) else (O if item == ("O",) else 0)
            if t.kind == "param":
                if tailvals is None or pi >= len(tailvals):
                    return "param_index"
                if tailvals[pi] != want or isinstance(tailvals[pi], bool):
                    return "param_index" if want in tailvals else "slot"
                pi += 1
            elif t.kind == "num":
                if t.text != str(want):
                    return "slot"
            else:
                return "slot"
            i += 1
        elif item == ("SENT",):
            if t.kind == "op" and t.text == "-" and i + 1 < len(tail) and tail[i + 1].kind == "num":
                i += 2
            elif t.kind == "num" and int(t.text) >= 2 ** 31:
                i += 1
            else:
                return "keyword"
        else:
            if t.key != item:
                return "order" if item in [x.key for x in tail] else "keyword"
            i += 1
    if i != len(tail):
        return "extra_tokens"
    return None


_con = None


def db():
    global _con
    if _con is None:
        _con = sqlite3.connect(":memory:")
        _con.execute("CREATE TABLE r (id INTEGER PRIMARY KEY)")
        _con.execute("CREATE TABLE r2 (id INTEGER PRIMARY KEY)")
        _con.executemany("INSERT INTO r VALUES (?)", [(i,) for i in range(1, 11)])
        _con.executemany("INSERT INTO r2 VALUES (?)", [(i,) for i in range(1, 4)])
    return _con


def check_one(cls, position, orderby, L, O, plan_steps, par):
    """-> list of (failure kind, detail)"""
    out = []
    p0 = program(cls, position, orderby, [])
    p1 = program(cls, position, orderby, plan_steps)
    try:
        q0 = prog.build_program(p0)
        q1 = prog.build_program(p1)
    except Exception as e:
        return [("raises:" + type(e).__name__, repr(e))]
    try:
        if par:
            s0, v0 = prog.render(q0, cls, True)
            s1, v1 = prog.render(q1, cls, True)
        else:
            s0, s1 = prog.render(q0, cls), prog.render(q1, cls)
            v0 = v1 = None
    except Exception as e:
        return [("raises:" + type(e).__name__, repr(e))]
    t0, t1 = lex.lex(s0, cls), lex.lex(s1, cls)
    sp = split_tail(t0, t1)
    if sp is None:
        return [("not_an_insertion", "%r vs %r" % (s1, s0))]
    p, tail = sp
    tailvals = None
    if par:
        nbefore = sum(1 for t in t1[:p] if t.kind == "param")
        ntail = sum(1 for t in tail if t.kind == "param")
        if len(v1) != sum(1 for t in t1 if t.kind == "param"):
            out.append(("param_count", "%r has %d placeholders for %r" % (s1, sum(1 for t in t1 if t.kind == "param"), v1)))
        tailvals = v1[nbefore:nbefore + ntail]
        if cls == "postgresql":
            nums = [int(t.text[1:]) for t in t1 if t.kind == "param" and t.text.startswith("$")]
            if nums != list(range(1, len(nums) + 1)):
                out.append(("numbering", "%r" % s1))
    setop = position == "setop_self"
    fails = []
    for pat in tail_grammar(cls, L, O, orderby, setop):
        f = match_tail(tail, pat, L, O, tailvals)
        if f is None:
            fails = []
            break
        fails.append(f)
    if fails:
        out.append((fails[0], "%s tail %r of %r (limit=%r offset=%r)" % (cls, " ".join(t.text for t in tail), s1, L, O)))
    if cls == "sqlite" and position in ("top", "from_sub", "setop_self") and (orderby or (L is None and O is None)) and not out:
        # meaning: skip m rows, then at most n
        try:
            if par:
                rows = db().execute(s1, v1).fetchall()
                allrows = db().execute(s0, v0).fetchall()
            else:
                rows = db().execute(s1).fetchall()
                allrows = db().execute(s0).fetchall()
            m = O or 0
            want = allrows[m:] if L is None else allrows[m:m + L]
            if rows != want:
                out.append(("rows", "%r returned %r, expected %r" % (s1, rows, want)))
        except sqlite3.Error as e:
            out.append(("engine_reject", "%r: %s" % (s1, e)))
    return out


def shape(L, O):
    return ("L" if L is not None else "") + ("O" if O is not None else "") or "none"


def sig_of(cls, position, L, O, kind):
    grp = "setop" if position == "setop_self" else "query"
    if grp == "setop" and cls in ("mssql", "oracle") and kind in ("keyword", "order", "extra_tokens"):
        # one root cause: _SetOperation always writes the generic LIMIT n OFFSET m
        return mksig(cls, "setop", "generic_limit_offset")
    return mksig(cls, grp, shape(L, O), kind)


def check_top(cls, k, par):
    out = []
    src = {"R": ["tbl", "r", None, None]}
    base = [["from_", [["src", "R"]]], ["select", [["col", "R", "id"]]], ["distinct", []]]
    q0 = prog.build_program({"cls": cls, "sources": src, "steps": base})
    q1 = prog.build_program({"cls": cls, "sources": src, "steps": base + [["top", [["py", k]]]]})
    s0, s1 = prog.render(q0, cls), prog.render(q1, cls)
    sp = split_tail(lex.lex(s0, cls), lex.lex(s1, cls))
    want = [W("TOP"), ("punct", "("), ("num", str(k)), ("punct", ")")]
    if sp is None or [t.key for t in sp[1]] != want:
        out.append(("top", "top(%d) renders %r" % (k, s1)))
    return out


def all_cases():
    for cls, position, orderby, L, O, par in itertools.product(CTXS, POSITIONS, (False, True), (None, 0, LV), (None, 0, OV), (False, True)):
        for name, steps in plans(L, O, cls):
            if position == "setop_self" and name not in ("none", "limit", "offset", "limit_offset", "offset_limit", "limit_twice", "offset_twice"):
                continue
            yield {"cls": cls, "pos": position, "orderby": orderby, "L": L, "O": O, "par": par, "plan": name}


def steps_of(case):
    for name, steps in plans(case["L"], case["O"], case["cls"]):
        if name == case["plan"]:
            return steps
    raise HarnessError("unknown plan")


def check_case(case):
    if case.get("mode") == "top":
        return [(mksig("mssql", "top", k), d) for k, d in check_top("mssql", case["k"], False)]
    res = check_one(case["cls"], case["pos"], case["orderby"], case["L"], case["O"], steps_of(case), case["par"])
    return [(sig_of(case["cls"], case["pos"], case["L"], case["O"], k), d) for k, d in res]


def valid_case(case):
    try:
        if case.get("mode") == "top":
            return case["k"] in (0, 5)
        return case["cls"] in CTXS and case["pos"] in POSITIONS and case["L"] in (None, 0, LV) and case["O"] in (None, 0, OV) and bool(steps_of(case) is not None)
    except (Exception, HarnessError):
        return False


def shards(tier, sd):
    return [(tier, c) for c in CTXS]


def run_shard(shard):
    tier, cls = shard
    col = Collector()
    n = 0
    for case in all_cases():
        if case["cls"] != cls:
            continue
        n += 1
        nt = case["L"] is not None or case["O"] is not None
        sample = None
        if nt and len(col.samples) < col.MAX_SAMPLES:
            try:
                sample = dict(case, sql=str(prog.render(prog.build_program(program(cls, case["pos"], case["orderby"], steps_of(case))), cls, case["par"])))
            except Exception:
                sample = None
        col.case(case, nt, classes=("pos:" + case["pos"], "shape:" + shape(case["L"], case["O"]), "plan:" + case["plan"]), sample=sample)
        for sig, detail in check_case(case):
            col.violation(sig, case, detail)
    if cls == "mssql":
        for k in (0, 5):
            case = {"mode": "top", "k": k}
            col.case(case, True, classes=("top",))
            for sig, detail in check_case(case):
                col.violation(sig, case, detail)
    col.exhaustive = True
    col.notes["enumerated_cases"] = n
    return col
