"""C09 - LIMIT/OFFSET render as the dialect's row-limiting clause, values in the right slots.

Domain (enumerated completely): limit in {absent, 0, 3} x offset in {absent, 0, 2} x setter plan (limit/offset in both
orders, slice, fetch_next, overwriting calls) x ORDER BY present/absent x position {top level, FROM subquery, IN subquery,
set-operation operand, the set operation itself} x six classes x {inline, parameterised}; plus TOP (k) for k in {0, 5}.
Oracle: the statement with pagination equals the statement without it plus an inserted token run (the tail); the tail must
match the dialect's row-limiting grammar with the limit / offset values in their slots (placeholders: the values list holds
them at the placeholder's index).  On SQLite the statement is executed against a 10-row table: rows == all_rows[m:m+n].
"""
from __future__ import annotations

import itertools
import sqlite3

from hypothesis import HealthCheck, given, seed, settings, strategies as st

from pbt import lex, prog
from pbt.core import Collector, HarnessError, mksig

ID = "C09"
RULE = ("exhaustive product: (limit, offset) in (absent|0|positive)^2 x setter plans (limit/offset both orders, slice, fetch_next, overwrites) x "
        "ORDER BY yes/no x 5 embedding positions x 6 dialect classes x inline/parameterised, plus TOP. Non-trivial = limit or offset present "
        "(both-absent cases only check that no tail is emitted); distinct = distinct enumerated case. Second family (Hypothesis): pagination at two query nodes at once "
        "(FROM subquery / IN subquery / set-operation operand + the enclosing query) with values up to 2^63-1, three call styles, other parameters before and between; "
        "each node's tail is checked against the statement without it, SQLite results against a list-slicing model; non-trivial there = both nodes paginated.")
ASSUMPTIONS = [
    "row-limiting grammars: SQLite/MySQL LIMIT n [OFFSET m] (offset alone needs LIMIT <no-limit sentinel>); PostgreSQL and the generic class [LIMIT n] [OFFSET m]; "
    "SQL Server ORDER BY .. OFFSET m ROWS [FETCH NEXT n ROWS ONLY]; Oracle [OFFSET m ROWS] [FETCH NEXT n ROWS ONLY]",
    "slice [a:b] means offset=a, limit=b (pinned by tests/test_selects.py)",
    "T-SQL forbids TOP together with OFFSET; that combination is not generated",
    "T-SQL requires the ORDER BY items of a set operation to come from its select list (Msg 104): the neutral ordering of a paginated set operation is ORDER BY 1",
]

LV, OV = 3, 2
CTXS = prog.CLS_NAMES
POSITIONS = ["top", "from_sub", "in_sub", "setop_operand", "setop_self"]


def plans(L, O, cls):
    """list of (plan name, steps) that leave limit=L, offset=O (None = never set)"""
    out = []
    lim = lambda v: ["limit", [["py", v]]]  # noqa: E731
    off = lambda v: ["offset", [["py", v]]]  # noqa: E731
    if L is None and O is None:
        return [("none", [])]
    if L is not None and O is None:
        out += [("limit", [lim(L)]), ("slice", [["slice", [["slice", None, L]]]]), ("getitem", [["__getitem__", [["slice", None, L]]]]), ("limit_twice", [lim(99), lim(L)])]
        if cls == "mssql":
            out += [("fetch_next", [["fetch_next", [["py", L]]]])]
    elif L is None:
        out += [("offset", [off(O)]), ("slice", [["slice", [["slice", O, None]]]]), ("offset_twice", [off(77), off(O)])]
    else:
        out += [("limit_offset", [lim(L), off(O)]), ("offset_limit", [off(O), lim(L)]), ("slice", [["slice", [["slice", O, L]]]]),
                ("slice_then_limit", [["slice", [["slice", O, 88]]], lim(L)]), ("getitem", [["__getitem__", [["slice", O, L]]]])]
        if cls == "mssql":
            out += [("offset_fetch", [off(O), ["fetch_next", [["py", L]]]]), ("fetch_offset", [["fetch_next", [["py", L]]], off(O)])]
    return out


def inner_steps(orderby, cls=None, unwrapped=False):
    kw = {"wrap_set_operation_queries": ["py", False]} if unwrapped else {}
    st_ = [["from_", [["src", "R"]], kw], ["select", [["col", "R", "id"]]], ["where", [["gt", ["col", "R", "id"], ["raw", 0]]]]]
    if orderby:
        st_.append(["orderby", [["col", "R", "id"]]])
    return st_


def program(cls, position, orderby, pag_steps):
    src = {"R": ["tbl", "r", None, None], "R2": ["tbl", "r2", None, None]}
    # SQLite's grammar has no bracketed set operands: the SQLite programs ask for unwrapped operands (documented switch)
    unwrapped = cls == "sqlite" and position.startswith("setop")
    inner = {"cls": cls, "sources": src, "steps": inner_steps(orderby, cls, unwrapped) + (pag_steps if position != "setop_self" else [])}
    if position == "top":
        return inner
    inner_sub = dict(inner, cls="inherit", sources={})
    if position == "from_sub":
        return {"cls": cls, "sources": src, "steps": [["from_", [["q", inner_sub]]], ["select", [["py", "*"]]]]}
    if position == "in_sub":
        return {"cls": cls, "sources": src, "steps": [["from_", [["src", "R2"]]], ["select", [["col", "R2", "id"]]], ["where", [["in", ["col", "R2", "id"], ["q", inner_sub]]]]]}
    other = {"cls": "inherit", "sources": {}, "steps": [["from_", [["src", "R2"]]], ["select", [["col", "R2", "id"]]]]}
    if position == "setop_operand":
        return {"cls": cls, "sources": src, "steps": inner["steps"] + [["union_all", [["q", other]]]]}
    if position == "setop_self":
        steps = inner_steps(False, cls, unwrapped) + [["union_all", [["q", other]]]]
        if orderby:
            steps.append(["orderby", [["col", "R", "id"]]])
        # set operations only offer limit()/offset()
        return {"cls": cls, "sources": src, "steps": steps + pag_steps}
    raise HarnessError(position)


def norm(tokens):
    return [("param", "?") if t.kind == "param" else t.key for t in tokens]


def split_tail(t0, t1):
    """t1 == t0[:p] + tail + t0[p:] (placeholders compared by kind); -> (p, tail tokens) or None"""
    n0, n1 = norm(t0), norm(t1)
    p = 0
    while p < len(n0) and p < len(n1) and n0[p] == n1[p]:
        p += 1
    rest = len(n0) - p
    if rest > len(n1) - p:
        return None
    if rest and n1[len(n1) - rest:] != n0[p:]:
        return None
    return p, t1[p:len(t1) - rest]


def W(x):
    return ("word", x)


def tail_grammar(cls, L, O, has_orderby, setop):
    """list of acceptable tails; each a list of items: token key | ('L',) | ('O',) | ('SENT',) | ('ZERO',)"""
    Ls, Os = ("L",), ("O",)
    if L is None and O is None:
        return [[]]
    if cls in ("sqlite", "mysql"):
        if L is not None and O is not None:
            return [[W("LIMIT"), Ls, W("OFFSET"), Os]]
        if L is not None:
            return [[W("LIMIT"), Ls]]
        return [[W("LIMIT"), ("SENT",), W("OFFSET"), Os]]
    if cls in ("postgresql", "generic"):
        t = []
        if L is not None:
            t += [W("LIMIT"), Ls]
        if O is not None:
            t += [W("OFFSET"), Os]
        return [t]
    if cls == "mssql":
        t = []
        if not has_orderby and setop:
            # T-SQL: the ORDER BY items of a UNION / INTERSECT / EXCEPT must come from the select list (error 104), so the neutral
            # ordering of a compound is a column position, not the constant subquery used for a plain SELECT
            t += [W("ORDER"), W("BY"), ("num", "1")]
        elif not has_orderby:
            t += [W("ORDER"), W("BY"), ("punct", "("), W("SELECT"), ("num", "0"), ("punct", ")")]
        t += [W("OFFSET"), Os if O is not None else ("ZERO",), W("ROWS")]
        if L is not None:
            t += [W("FETCH"), W("NEXT"), Ls, W("ROWS"), W("ONLY")]
        alts = [t]
        if L is None and O == 0:
            alts.append([])  # skipping zero rows may be left out altogether
        return alts
    if cls == "oracle":
        t = []
        if O is not None:
            t += [W("OFFSET"), Os, W("ROWS")]
        if L is not None:
            t += [W("FETCH"), W("NEXT"), Ls, W("ROWS"), W("ONLY")]
        return [t]
    raise HarnessError(cls)


def match_tail(tail, pattern, L, O, tailvals):
    """-> None if ok else failure kind"""
    i = 0
    pi = 0  # index into tailvals (values of placeholders inside the tail, in order)
    for item in pattern:
        if i >= len(tail):
            return "keyword"
        t = tail[i]
        if item in (("L",), ("O",), ("ZERO",)):
            want = L if item == ("L",) else (O if item == ("O",) else 0)
            if t.kind == "param":
                if tailvals is None or pi >= len(tailvals):
                    return "param_index"
                if tailvals[pi] != want or isinstance(tailvals[pi], bool):
                    return "param_index" if want in tailvals else "slot"
                pi += 1
            elif t.kind == "num":
                if t.text != str(want):
                    return "slot"
                if tailvals is not None and item != ("ZERO",):
                    return "inline_in_parameterised"  # "both inline and in the parameter list": with a parameterizer the value travels in the list
            else:
                return "slot"
            i += 1
        elif item == ("SENT",):
            if t.kind == "op" and t.text == "-" and i + 1 < len(tail) and tail[i + 1].kind == "num":
                i += 2
            elif t.kind == "num" and int(t.text) >= 2 ** 31:
                i += 1
            else:
                return "keyword"
        else:
            if t.key != item:
                return "order" if item in [x.key for x in tail] else "keyword"
            i += 1
    if i != len(tail):
        return "extra_tokens"
    return None


_con = None


def db():
    global _con
    if _con is None:
        _con = sqlite3.connect(":memory:")
        _con.execute("CREATE TABLE r (id INTEGER PRIMARY KEY)")
        _con.execute("CREATE TABLE r2 (id INTEGER PRIMARY KEY)")
        _con.executemany("INSERT INTO r VALUES (?)", [(i,) for i in range(1, 11)])
        _con.executemany("INSERT INTO r2 VALUES (?)", [(i,) for i in range(1, 4)])
    return _con


def check_one(cls, position, orderby, L, O, plan_steps, par):
    """-> list of (failure kind, detail)"""
    p0 = program(cls, position, orderby, [])
    p1 = program(cls, position, orderby, plan_steps)
    exec_ok = cls == "sqlite" and position in ("top", "from_sub", "setop_self") and (orderby or (L is None and O is None))
    out = check_pair(cls, p0, p1, L, O, orderby, par, exec_ok, setop=position == "setop_self")
    if cls == "sqlite" and position == "setop_operand" and not out:
        # the paginated operand is one unit of the compound: the engine accepts it, and it contributes rows m+1 .. m+n of the operand
        try:
            q1 = prog.build_program(p1)
            if par:
                s1, v1 = prog.render(q1, cls, True)
                rows = db().execute(s1, v1).fetchall()
            else:
                s1 = prog.render(q1, cls)
                rows = db().execute(s1).fetchall()
            if orderby:
                m = O or 0
                part = list(range(1, 11))[m:] if L is None else list(range(1, 11))[m:m + L]
                want = sorted([(i,) for i in part] + [(1,), (2,), (3,)])
                if sorted(rows) != want:
                    out.append(("rows", "%r returned %r, expected (as a multiset) %r" % (s1, rows, want)))
        except sqlite3.Error as e:
            out.append(("engine_reject", "%r: %s" % (s1, e)))
    return out


def check_pair(cls, p0, p1, L, O, orderby, par, exec_ok, setop=False):
    """p1 is p0 plus the pagination calls (limit L, offset O) at one query node -> list of (failure kind, detail)"""
    out = []
    try:
        q0 = prog.build_program(p0)
        q1 = prog.build_program(p1)
    except Exception as e:
        return [("raises:" + type(e).__name__, repr(e))]
    try:
        if par:
            s0, v0 = prog.render(q0, cls, True)
            s1, v1 = prog.render(q1, cls, True)
        else:
            s0, s1 = prog.render(q0, cls), prog.render(q1, cls)
            v0 = v1 = None
    except Exception as e:
        return [("raises:" + type(e).__name__, repr(e))]
    t0, t1 = lex.lex(s0, cls), lex.lex(s1, cls)
    sp = split_tail(t0, t1)
    pre = 0
    if sp is None and t1 and t1[0].text == "(" and t0 and t0[0].text != "(":
        pre = 1
    elif sp is None and cls == "sqlite" and [t.text for t in t1[:4]] == ["SELECT", "*", "FROM", "("] and [t.text for t in t0[:4]] != ["SELECT", "*", "FROM", "("]:
        pre = 4  # SQLite has no bracketed operands: the unit is written SELECT * FROM ( ... )
    if pre:
        # an un-bracketed set-operation operand becomes one bracketed unit once it carries clauses of its own (they would end the
        # operand otherwise): the row-limiting clause must then be the last thing inside those brackets
        depth, j = 0, None
        for k, t in enumerate(t1):
            if k < pre - 1:
                continue
            if t.kind == "punct" and t.text == "(":
                depth += 1
            elif t.kind == "punct" and t.text == ")":
                depth -= 1
                if depth == 0:
                    j = k
                    break
        if j is not None:
            t1b = t1[pre:j] + t1[j + 1:]
            sp2 = split_tail(t0, t1b)
            if sp2 is not None and sp2[0] + len(sp2[1]) == j - pre:
                sp, t1 = sp2, t1b
    if sp is None:
        return [("not_an_insertion", "%r vs %r" % (s1, s0))]
    p, tail = sp
    tailvals = None
    if par:
        nbefore = sum(1 for t in t1[:p] if t.kind == "param")
        ntail = sum(1 for t in tail if t.kind == "param")
        if len(v1) != sum(1 for t in t1 if t.kind == "param"):
            out.append(("param_count", "%r has %d placeholders for %r" % (s1, sum(1 for t in t1 if t.kind == "param"), v1)))
        tailvals = v1[nbefore:nbefore + ntail]
        if cls == "postgresql":
            nums = [int(t.text[1:]) for t in t1 if t.kind == "param" and t.text.startswith("$")]
            if nums != list(range(1, len(nums) + 1)):
                out.append(("numbering", "%r" % s1))
    fails = []
    for pat in tail_grammar(cls, L, O, orderby, setop):
        f = match_tail(tail, pat, L, O, tailvals)
        if f is None:
            fails = []
            break
        fails.append(f)
    if fails and cls == "mssql" and setop and any(t.kind == "word" and t.value == "SELECT" for t in tail):
        fails = ["neutral_order_outside_select_list"]
    if fails:
        out.append((fails[0], "%s tail %r of %r (limit=%r offset=%r)" % (cls, " ".join(t.text for t in tail), s1, L, O)))
    if exec_ok and not out:
        # meaning: skip m rows, then at most n
        try:
            if par:
                rows = db().execute(s1, v1).fetchall()
                allrows = db().execute(s0, v0).fetchall()
            else:
                rows = db().execute(s1).fetchall()
                allrows = db().execute(s0).fetchall()
            m = O or 0
            want = allrows[m:] if L is None else allrows[m:m + L]
            if rows != want:
                out.append(("rows", "%r returned %r, expected %r" % (s1, rows, want)))
        except sqlite3.Error as e:
            out.append(("engine_reject", "%r: %s" % (s1, e)))
    return out


# ---- second family: pagination at two query nodes at once, any values, other parameters around --------------------------------

TWO_POS = ["from_sub", "in_sub", "setop"]
BIG = [2 ** 31 - 1, 2 ** 31, 2 ** 63 - 1, 10 ** 12, 4294967296]


def pag_steps(L, O, order):
    lim = ["limit", [["py", L]]] if L is not None else None
    off = ["offset", [["py", O]]] if O is not None else None
    if order == "slice" and L is not None and O is not None:
        return [["slice", [["slice", O, L]]]]
    st_ = [x for x in ((off, lim) if order == "ol" else (lim, off)) if x is not None]
    return st_


def program2(case, with_inner=True, with_outer=True):
    cls, pos = case["cls"], case["pos"]
    src = {"R": ["tbl", "r", None, None], "R2": ["tbl", "r2", None, None]}
    unwrapped = cls == "sqlite" and pos == "setop"
    kw = {"wrap_set_operation_queries": ["py", False]} if unwrapped else {}
    ist = [["from_", [["src", "R"]], kw], ["select", [["col", "R", "id"]]], ["where", [["gt", ["col", "R", "id"], ["raw", case["wv"]]]]]]
    if case["oi"]:
        ist.append(["orderby", [["col", "R", "id"]]])
    if with_inner:
        ist += pag_steps(case["Li"], case["Oi"], case["order"])
    outer_pag = pag_steps(case["Lo"], case["Oo"], case["order"]) if with_outer else []
    if pos == "setop":
        other = {"cls": "inherit", "sources": {}, "steps": [["from_", [["src", "R2"]]], ["select", [["col", "R2", "id"]]], ["where", [["lt", ["col", "R2", "id"], ["raw", 100 + case["wv"]]]]]]}
        steps = ist + [["union_all", [["q", other]]]]
        if case["oo"]:
            steps.append(["orderby", [["col", "R", "id"]]])
        return {"cls": cls, "sources": src, "steps": steps + outer_pag}
    inner = {"cls": "inherit", "sources": {}, "steps": ist}
    if pos == "from_sub":
        src["SQ"] = ["sub", dict(inner, sources={}), "sq"]
        steps = [["from_", [["src", "SQ"]]], ["select", [["col", "SQ", "id"]]], ["where", [["lt", ["col", "SQ", "id"], ["raw", 100 + case["wv"]]]]]]
        if case["oo"]:
            steps.append(["orderby", [["col", "SQ", "id"]]])
    else:
        steps = [["from_", [["src", "R2"]]], ["select", [["col", "R2", "id"]]], ["where", [["in", ["col", "R2", "id"], ["q", inner]]]], ["where", [["lt", ["col", "R2", "id"], ["raw", 100 + case["wv"]]]]]]
        if case["oo"]:
            steps.append(["orderby", [["col", "R2", "id"]]])
    return {"cls": cls, "sources": src, "steps": steps + outer_pag}


_con2 = None


def db2():
    global _con2
    if _con2 is None:
        _con2 = sqlite3.connect(":memory:")
        _con2.execute("CREATE TABLE r (id INTEGER PRIMARY KEY)")
        _con2.execute("CREATE TABLE r2 (id INTEGER PRIMARY KEY)")
        _con2.executemany("INSERT INTO r VALUES (?)", [(i,) for i in range(1, 11)])
        _con2.executemany("INSERT INTO r2 VALUES (?)", [(i,) for i in range(1, 9)])
    return _con2


def _sl(rows, L, O):
    m = O or 0
    return rows[m:] if L is None else rows[m:m + L]


def model_rows(case):
    """expected result of the SQLite statement, or None where SQL leaves the order of the rows that are cut undefined"""
    pos = case["pos"]
    inner = [i for i in range(1, 11) if i > case["wv"]]
    ipag = case["Li"] is not None or case["Oi"] is not None
    opag = case["Lo"] is not None or case["Oo"] is not None
    if (ipag and not case["oi"]) or (opag and not case["oo"]):
        return None
    if pos == "from_sub":
        rows = _sl(inner, case["Li"], case["Oi"])
        rows = [i for i in rows if i < 100 + case["wv"]]
        return _sl(rows, case["Lo"], case["Oo"]) if case["oo"] or not opag else None
    if pos == "in_sub":
        sel = set(_sl(inner, case["Li"], case["Oi"]))
        rows = [i for i in range(1, 9) if i in sel]
        return _sl(rows, case["Lo"], case["Oo"])
    if ipag or case["oi"]:
        return None  # SQLite has neither ORDER BY nor pagination of a compound operand
    rows = sorted(inner + list(range(1, 9)))
    return _sl(rows, case["Lo"], case["Oo"])


def check_two(case):
    cls, par = case["cls"], case["par"]
    out = []
    full = program2(case)
    for level, L, O, ob, p0 in (("inner", case["Li"], case["Oi"], case["oi"], program2(case, with_inner=False)),
                                ("outer", case["Lo"], case["Oo"], case["oo"], program2(case, with_outer=False))):
        if L is None and O is None:
            continue
        for kind, detail in check_pair(cls, p0, full, L, O, ob, par, False, setop=case["pos"] == "setop" and level == "outer"):
            grp = "setop" if case["pos"] == "setop" and level == "outer" else "query"
            if kind == "neutral_order_outside_select_list":
                out.append((mksig(cls, "setop", kind), detail))  # one root cause, the same signature as in the enumerated family
                continue
            out.append((mksig(cls, "two", grp, level, shape(L, O), kind), detail))
    if cls == "sqlite" and not out:
        want = model_rows(case)
        if want is not None:
            try:
                q = prog.build_program(full)
                if par:
                    sql, vals = prog.render(q, cls, True)
                    rows = db2().execute(sql, vals).fetchall()
                else:
                    sql = prog.render(q, cls)
                    rows = db2().execute(sql).fetchall()
                got = [r[0] for r in rows]
                if (got if case["oo"] else sorted(got)) != want:
                    out.append((mksig(cls, "two", "rows"), "%r returned %r, the calls mean %r" % (sql, got, want)))
            except sqlite3.Error as e:
                out.append((mksig(cls, "two", "engine_reject"), "%r: %s" % (sql, e)))
    return out


def shape(L, O):
    return ("L" if L is not None else "") + ("O" if O is not None else "") or "none"


def sig_of(cls, position, L, O, kind):
    grp = "setop" if position == "setop_self" else "query"
    if kind == "neutral_order_outside_select_list":
        return mksig(cls, "setop", kind)
    if grp == "setop" and cls in ("mssql", "oracle") and kind in ("keyword", "order", "extra_tokens"):
        # one root cause: _SetOperation always writes the generic LIMIT n OFFSET m
        return mksig(cls, "setop", "generic_limit_offset")
    return mksig(cls, grp, shape(L, O), kind)


def check_top(cls, k, par):
    out = []
    src = {"R": ["tbl", "r", None, None]}
    base = [["from_", [["src", "R"]]], ["select", [["col", "R", "id"]]], ["distinct", []]]
    q0 = prog.build_program({"cls": cls, "sources": src, "steps": base})
    q1 = prog.build_program({"cls": cls, "sources": src, "steps": base + [["top", [["py", k]]]]})
    s0, s1 = prog.render(q0, cls), prog.render(q1, cls)
    sp = split_tail(lex.lex(s0, cls), lex.lex(s1, cls))
    want = [W("TOP"), ("punct", "("), ("num", str(k)), ("punct", ")")]
    if sp is None or [t.key for t in sp[1]] != want:
        out.append(("top", "top(%d) renders %r" % (k, s1)))
    return out


def all_cases():
    for cls, position, orderby, L, O, par in itertools.product(CTXS, POSITIONS, (False, True), (None, 0, LV), (None, 0, OV), (False, True)):
        for name, steps in plans(L, O, cls):
            if position == "setop_self" and name not in ("none", "limit", "offset", "limit_offset", "offset_limit", "limit_twice", "offset_twice", "slice", "slice_then_limit", "getitem"):
                continue
            yield {"cls": cls, "pos": position, "orderby": orderby, "L": L, "O": O, "par": par, "plan": name}


def steps_of(case):
    for name, steps in plans(case["L"], case["O"], case["cls"]):
        if name == case["plan"]:
            return steps
    raise HarnessError("unknown plan")


# ---- UPDATE .. ORDER BY .. LIMIT (SQLite and MySQL builders): the same clause on a data-changing statement -------------------------------

UPDATE_CLS = ("sqlite", "mysql")


def update_cases():
    for cls in UPDATE_CLS:
        for L, O, par in itertools.product((None, 0, LV), (None, 0, OV), (False, True)):
            for name, steps in plans(L, O, cls):
                if name in ("fetch_next", "top"):
                    continue
                yield {"mode": "update", "cls": cls, "L": L, "O": O, "par": par, "plan": name}


def check_update(case):
    cls, L, O = case["cls"], case["L"], case["O"]
    steps = [s for n, s in plans(L, O, cls) if n == case["plan"]][0]
    src = {"R": ["tbl", "r", None, None]}
    base = [["update", [["src", "R"]]], ["set", [["col", "R", "v"], ["raw", 9]]]]
    if L is not None or O is not None:
        base.append(["orderby", [["col", "R", "id"]]])
    try:
        q = prog.build_program({"cls": cls, "sources": src, "steps": base + steps})
        sql, vals = prog.render(q, cls, True) if case["par"] else (prog.render(q, cls), [])
    except Exception as e:
        if type(e).__module__.startswith("pypika_tortoise"):
            return []  # a refusal is not a wrong clause
        return [(mksig(cls, "update", "raises:" + type(e).__name__), repr(e))]
    if cls == "mysql":
        # MySQL's UPDATE has LIMIT n only: there is no place for an offset, and a statement that silently leaves it out changes other rows
        if O and "OFFSET" not in sql.upper():  # (an offset of 0 skips nothing: leaving it out is harmless)
            return [(mksig("mysql", "update", "offset_dropped"), "offset(%d) on UPDATE is neither rendered nor refused: %r" % (O, sql))]
        return []
    con = sqlite3.connect(":memory:")
    try:
        con.execute("CREATE TABLE r (id INTEGER PRIMARY KEY, v)")
        con.executemany("INSERT INTO r VALUES (?, 0)", [(i,) for i in range(1, 9)])
        try:
            con.execute(sql, vals)
        except sqlite3.Error as e:
            return [(mksig("sqlite", "update", "engine_reject"), "%r: %s" % (sql, e))]
        got = [i for i, v in con.execute("SELECT id, v FROM r ORDER BY id") if v == 9]
    finally:
        con.close()
    ids = list(range(1, 9))
    m = O or 0
    want = ids[m:] if L is None else ids[m:m + L]
    if got != want:
        return [(mksig("sqlite", "update", "rows"), "%r (limit %r, offset %r) updated the rows %r, expected %r" % (sql, L, O, got, want))]
    return []


def check_case(case):
    if case.get("mode") == "update":
        return check_update(case)
    if case.get("mode") == "two":
        return check_two(case)
    if case.get("mode") == "top":
        return [(mksig("mssql", "top", k), d) for k, d in check_top("mssql", case["k"], False)]
    res = check_one(case["cls"], case["pos"], case["orderby"], case["L"], case["O"], steps_of(case), case["par"])
    return [(sig_of(case["cls"], case["pos"], case["L"], case["O"], k), d) for k, d in res]


def valid_case(case):
    try:
        if case.get("mode") == "two":
            okv = lambda v: v is None or (isinstance(v, int) and not isinstance(v, bool) and 0 <= v < 2 ** 63)  # noqa: E731
            return case["cls"] in CTXS and case["pos"] in TWO_POS and all(okv(case[k]) for k in ("Li", "Oi", "Lo", "Oo")) and case["order"] in ("lo", "ol", "slice") and \
                isinstance(case["wv"], int) and 0 <= case["wv"] <= 9 and all(case[k] in (True, False) for k in ("oi", "oo", "par"))
        if case.get("mode") == "top":
            return case["k"] in (0, 5)
        if case.get("mode") == "update":
            return case in list(update_cases())
        return case["cls"] in CTXS and case["pos"] in POSITIONS and case["L"] in (None, 0, LV) and case["O"] in (None, 0, OV) and bool(steps_of(case) is not None)
    except (Exception, HarnessError):
        return False


def shards(tier, sd):
    n = 4 if tier == "quick" else 16
    return [(tier, c) for c in CTXS] + [("two:" + tier, sd * 1000 + k) for k in range(n)]


def two_cases():
    val = st.one_of(st.none(), st.integers(0, 12), st.integers(0, 12), st.sampled_from(BIG), st.integers(0, 2 ** 63 - 1))
    return st.fixed_dictionaries({"mode": st.just("two"), "cls": st.sampled_from(CTXS), "pos": st.sampled_from(TWO_POS), "oi": st.booleans(), "oo": st.booleans(),
                                  "Li": val, "Oi": val, "Lo": val, "Oo": val, "par": st.booleans(), "wv": st.integers(0, 5), "order": st.sampled_from(["lo", "ol", "slice"])})


def run_two_shard(tier, sd):
    col = Collector()
    nex = 400 if tier.endswith("quick") else 6000

    @seed(sd)
    @settings(max_examples=nex, database=None, deadline=None, suppress_health_check=list(HealthCheck), report_multiple_bugs=False)
    @given(two_cases())
    def prop(case):
        inner = case["Li"] is not None or case["Oi"] is not None
        outer = case["Lo"] is not None or case["Oo"] is not None
        executed = case["cls"] == "sqlite" and model_rows(case) is not None
        col.case(case, inner and outer, classes=("two:" + case["pos"], "cls:" + case["cls"], "levels:%d" % (int(inner) + int(outer)), "executed:%s" % executed))
        for sig, detail in check_two(case):
            col.violation(sig, case, detail)

    prop()
    return col


def run_shard(shard):
    tier, cls = shard
    if tier.startswith("two:"):
        return run_two_shard(tier, cls)
    col = Collector()
    n = 0
    for case in all_cases():
        if case["cls"] != cls:
            continue
        n += 1
        nt = case["L"] is not None or case["O"] is not None
        sample = None
        if nt and len(col.samples) < col.MAX_SAMPLES:
            try:
                sample = dict(case, sql=str(prog.render(prog.build_program(program(cls, case["pos"], case["orderby"], steps_of(case))), cls, case["par"])))
            except Exception:
                sample = None
        col.case(case, nt, classes=("pos:" + case["pos"], "shape:" + shape(case["L"], case["O"]), "plan:" + case["plan"]), sample=sample)
        for sig, detail in check_case(case):
            col.violation(sig, case, detail)
    for case in update_cases():
        if case["cls"] == cls:
            col.case(case, case["L"] is not None or case["O"] is not None, classes=("pos:update", "shape:" + shape(case["L"], case["O"]), "plan:" + case["plan"]))
            for sig, detail in check_case(case):
                col.violation(sig, case, detail)
    if cls == "mssql":
        for k in (0, 5):
            case = {"mode": "top", "k": k}
            col.case(case, True, classes=("top",))
            for sig, detail in check_case(case):
                col.violation(sig, case, detail)
    col.exhaustive = True
    col.notes["enumerated_cases"] = n
    return col
