"""C18 - Interval literals encode exactly the requested duration.

Domain   exhaustive 7^7 digit-pattern grid + Hypothesis random components (up to 10^12), negative
         leading component, quarters, weeks; the three templates reached through the six class contexts.
Oracle   a layout decoder written from the documented form ``Y-M-D h:m:s.u``.
"""
from __future__ import annotations

import itertools
import re

from hypothesis import given, seed, settings, strategies as st, HealthCheck

from pbt.core import Collector, mksig

ID = "C18"
RULE = ("Interval(**components) rendered under a dialect context and decoded by an independent layout decoder; "
        "exhaustive 7^7 grid over digit patterns {0,1,5,10,20,100,101} plus Hypothesis-generated components up to 10^12, "
        "negative leading component, quarters and weeks. Non-trivial = at least two non-zero components, or a component whose "
        "decimal text starts/ends with 0, or a negative component; distinct = distinct (components, context) tuple.")
ASSUMPTIONS = [
    "the reading of a literal is the field layout 'Y-M-D h:m:s.u' cut to LARGEST..SMALLEST (property statement); under the MySQL context "
    "the last field of an .._MICROSECOND literal is in addition read the way the MySQL server reads it (left-justified to six digits)",
    "negative non-leading components are abs()'d by the constructor and are not generated",
    "dialect templates: PostgreSQL/Redshift/Vertica and default INTERVAL 'e U'; MySQL/Oracle INTERVAL 'e' U (vendor documentation)",
]

UNITS = ["years", "months", "days", "hours", "minutes", "seconds", "microseconds"]
LABELS = ["YEAR", "MONTH", "DAY", "HOUR", "MINUTE", "SECOND", "MICROSECOND"]
SEPS = ["-", "-", " ", ":", ":", "."]  # separator between field i and i+1
DIGITS = [0, 1, 5, 10, 20, 100, 101]
CTX_NAMES = ["generic", "sqlite", "mysql", "postgresql", "mssql", "oracle"]
TEMPLATE_OF = {"generic": "joined", "sqlite": "joined", "mssql": "joined", "postgresql": "joined",
               "mysql": "split", "oracle": "split"}


def _contexts():
    from pypika_tortoise import Query, SQLLiteQuery, MySQLQuery, PostgreSQLQuery, MSSQLQuery, OracleQuery
    return {"generic": Query.SQL_CONTEXT, "sqlite": SQLLiteQuery.SQL_CONTEXT, "mysql": MySQLQuery.SQL_CONTEXT,
            "postgresql": PostgreSQLQuery.SQL_CONTEXT, "mssql": MSSQLQuery.SQL_CONTEXT, "oracle": OracleQuery.SQL_CONTEXT}


_CTX = None


def ctx_of(name):
    global _CTX
    if _CTX is None:
        _CTX = _contexts()
    return _CTX[name]


RE_JOINED = re.compile(r"^INTERVAL '(-?)([0-9 :.\-]*[0-9]) ([A-Z_]+)'$")
RE_SPLIT = re.compile(r"^INTERVAL '(-?)([0-9 :.\-]*[0-9])' ([A-Z_]+)$")


def decode(text: str, template: str):
    """-> (sign, [field ints], unit) or raises ValueError(kind)"""
    m = (RE_JOINED if template == "joined" else RE_SPLIT).match(text)
    if not m:
        other = (RE_SPLIT if template == "joined" else RE_JOINED).match(text)
        raise ValueError("template" if other else "malformed")
    return m.group(1), m.group(2), m.group(3)


def split_fields(body: str, i: int, j: int):
    """Split the expression body on exactly the layout separators between unit i and unit j."""
    pat = "^" + "".join(r"(\d+)" + (re.escape(SEPS[k]) if k < j else "") for k in range(i, j + 1)) + "$"
    m = re.match(pat, body)
    if not m:
        return None
    return [int(x) for x in m.groups()]


def check_components(comp: dict, ctxname: str):
    """Returns list of (sig, detail). comp keys: the 7 units and/or quarters/weeks."""
    from pypika_tortoise import Interval

    out = []
    template = TEMPLATE_OF[ctxname]
    iv = Interval(**comp)
    sql = iv.get_sql(ctx_of(ctxname))
    sql2 = iv.get_sql(ctx_of(ctxname))
    if sql != sql2:
        out.append((mksig("unstable", ctxname), "%r then %r" % (sql, sql2)))
    try:
        sign, body, unit = decode(sql, template)
    except ValueError as e:
        return out + [(mksig(str(e), shape(comp)), "%r -> %r" % (comp, sql))]
    if "quarters" in comp or "weeks" in comp:
        key = "quarters" if "quarters" in comp else "weeks"
        v = comp[key]
        exp_unit = "QUARTER" if key == "quarters" else "WEEK"
        if unit != exp_unit:
            out.append((mksig("wrong_unit", key), "%r -> %r" % (comp, sql)))
        if not re.fullmatch(r"\d+", body) or int(body) != abs(v):
            out.append((mksig("value", key), "%r -> %r" % (comp, sql)))
        if (sign == "-") != (v < 0):
            out.append((mksig("sign_lost", key), "%r -> %r" % (comp, sql)))
        return out
    vals = [int(comp.get(u, 0)) for u in UNITS]
    nz = [k for k, v in enumerate(vals) if v]
    if not nz:
        # the all-zero interval: documented default unit DAY, value 0
        if unit != "DAY" or not re.fullmatch(r"[0 :.\-]+", body) or sign:
            out.append((mksig("zero_interval"), "%r -> %r" % (comp, sql)))
        return out
    i, j = nz[0], nz[-1]
    exp_unit = LABELS[i] if i == j else LABELS[i] + "_" + LABELS[j]
    sh = shape(comp)
    if unit != exp_unit:
        out.append((mksig("wrong_unit", sh), "%r -> %r expected unit %s" % (comp, sql, exp_unit)))
        return out
    fields = split_fields(body, i, j)
    if fields is None:
        out.append((mksig("layout", sh, zclass(vals)), "%r -> %r does not split as %s" % (comp, sql, exp_unit)))
        return out
    want = [abs(v) for v in vals[i:j + 1]]
    if fields != want:
        out.append((mksig("field_values", sh, zclass(vals)), "%r -> %r decoded %r" % (comp, sql, fields)))
    if (sign == "-") != (vals[i] < 0):
        out.append((mksig("sign_lost", LABELS[i] if i == j else "span"), "%r -> %r" % (comp, sql)))
    if ctxname == "mysql" and j == 6 and i < 6 and fields == want:
        # MySQL reads the last field of an .._MICROSECOND literal left-justified: '1.5' SECOND_MICROSECOND is 1 s 500000 us
        # (the server scales a microsecond field shorter than six digits, item_timefunc.cc get_interval_info(.., transform_msec))
        us_text = body.rsplit(".", 1)[1]
        if len(us_text) < 6 and int(us_text.ljust(6, "0")) != abs(vals[6]):
            out.append((mksig("mysql_reading", "microsecond_field_not_six_digits"), "%r -> %r: MySQL reads the microsecond field %r as %d microseconds" % (comp, sql, us_text, int(us_text.ljust(6, "0")))))
    return out


def shape(comp):
    if "quarters" in comp:
        return "QUARTER"
    if "weeks" in comp:
        return "WEEK"
    nz = [k for k, u in enumerate(UNITS) if comp.get(u)]
    if not nz:
        return "ZERO"
    return LABELS[nz[0]] if nz[0] == nz[-1] else LABELS[nz[0]] + "_" + LABELS[nz[-1]]


def zclass(vals):
    nz = [v for v in vals if v]
    if any(str(abs(v)).endswith("0") for v in nz):
        return "trailing0"
    return "plain"


def nontrivial(comp):
    vals = [comp.get(u, 0) for u in UNITS] + [comp.get("quarters", 0), comp.get("weeks", 0)]
    nz = [v for v in vals if v]
    return len(nz) >= 2 or any(v < 0 for v in nz) or any(str(abs(v)).endswith("0") for v in nz)


def check_case(case):
    return check_components(dict(case["comp"]), case["ctx"])


def _record(col, comp, ctxname):
    case = {"comp": comp, "ctx": ctxname}
    col.case(case, nontrivial(comp), classes=("ctx:" + ctxname, "shape:" + shape(comp)))
    for sig, detail in check_components(comp, ctxname):
        col.violation(sig, case, detail)


def run_fuzz_shard(shard):
    """coverage-guided layer (Atheris): bytes -> structured case, the same oracle inside the target"""
    from pbt import fuzz

    _, tier, sd, k = shard
    col = Collector()
    seeds = [] if k % 2 == 0 else [bytes(range(1, 65)), b"\x02" * 40, b"\x07\x01\x09" * 20]
    found, runs, note = fuzz.campaign("c18", 200000, sd, seeds)
    col.evaluations += runs
    col.count("atheris_executions", runs)
    col.notes["atheris"] = [note + (" (empty corpus)" if not seeds else " (seeded corpus)")]
    for f in found:
        col.violation(f["sig"], f["case"], f["detail"])
    return col


def shards(tier, sd):
    out = []
    for k, d0 in enumerate(DIGITS):
        for d1 in (DIGITS[:4], DIGITS[4:]):
            out.append(("grid", tier, sd, d0, d1))
    n = 4 if tier == "quick" else 16
    for k in range(n):
        out.append(("random", tier, sd * 1000 + k, 0, None))
    if tier == "thorough":
        out += [("fuzz", tier, sd * 1000 + 500 + k, k) for k in range(4)]
    return out


def run_shard(shard):
    if shard[0] == "fuzz":
        return run_fuzz_shard(shard)
    kind, tier, sd, d0, d1 = shard
    col = Collector()
    if kind == "grid":
        templates = ["postgresql", "mysql", "generic"]
        n = 0
        for rest in itertools.product(d1, *([DIGITS] * 5)):
            vals = (d0,) + rest
            comp = {u: v for u, v in zip(UNITS, vals) if v}
            n += 1
            names = templates if tier == "thorough" else [templates[n % 3]]
            for ctxname in names:
                _record(col, comp, ctxname)
        col.exhaustive = True
        col.notes["grid_points"] = n
        return col

    nex = 1500 if tier == "quick" else 20000
    big = st.one_of(st.sampled_from([0, 0, 1, 7, 10, 100, 1000, 1001, 60, 59, 999999, 1000000]),
                    st.integers(0, 10 ** 12),
                    st.integers(1, 9999).map(lambda x: x * 10), st.integers(0, 99))

    @st.composite
    def comps(draw):
        mode = draw(st.sampled_from(["span", "span", "span", "neg", "neg", "quarters", "weeks", "single"]))
        if mode in ("quarters", "weeks"):
            v = draw(st.integers(-10 ** 6, 10 ** 6).filter(lambda x: x != 0))
            return {mode: v}
        if mode == "single":
            u = draw(st.sampled_from(UNITS))
            v = draw(big.filter(lambda x: x != 0))
            if draw(st.booleans()):
                v = -v
            return {u: v}
        vals = [draw(big) for _ in UNITS]
        mask = draw(st.lists(st.booleans(), min_size=7, max_size=7))
        vals = [v if m else 0 for v, m in zip(vals, mask)]
        comp = {u: v for u, v in zip(UNITS, vals) if v}
        if mode == "neg" and comp:
            first = next(u for u in UNITS if u in comp)
            comp[first] = -comp[first]
        return comp

    @seed(sd)
    @settings(max_examples=nex, database=None, deadline=None, derandomize=False,
              suppress_health_check=list(HealthCheck), report_multiple_bugs=False)
    @given(comps(), st.sampled_from(CTX_NAMES))
    def prop(comp, ctxname):
        _record(col, comp, ctxname)

    prop()
    return col
