"""C17 - Equality and hashing of tables, schemas and queries are coherent.

(a) exhaustive cross product of table variants (name x schema form x alias x temporal clause x query class = 144), all pairs,
    all triples through the equality matrix; schemas / databases; aliased queries and CTE references; query builders.
    Laws: reflexive, symmetric, transitive, != is the negation, equal => equal hashes, unchanged by rendering,
    set / dict membership and set difference agree with a linear search by ==.
(b) Hypothesis-generated expressions over fields of 1..3 tables with overlapping column names: fields_() / tables_ must
    return every distinct (table, column) reference of the expression, whatever the operand order.
"""
from __future__ import annotations

import itertools

from hypothesis import HealthCheck, given, seed, settings, strategies as st

from pbt import gen, prog
from pbt.core import Collector, HarnessError, mksig

ID = "C17"
RULE = ("(a) the full cross product of 144 table variants: all 20736 ordered pairs and all triples via the equality matrix, plus schema, database, aliased-query "
        "and query-builder variants - exhaustive; (b) Hypothesis-generated expressions (every composite term kind) over fields of three tables that share "
        "column names, compared with a reference (table, column) collection computed from the program data. Non-trivial: pairs that are equal but not "
        "identical or differ in exactly one dimension; expressions mentioning >= 2 tables sharing a column name. distinct = distinct pair / expression. Also: every listed kind is hashable; "
        "tables derived by as_ / for_ / for_portion from tables that were already hashed and rendered equal the same table built directly.")
ASSUMPTIONS = [
    "Term.__eq__ builds a criterion by design, so terms are outside the equality laws and only subject to the collection check",
    "table identity is the library's documented (name, schema path, alias)",
]

# ---- (a) variants -------------------------------------------------------------------------------------------------

SCHEMAS = [None, "s", ["d", "s"], ["schema", "s", None], ["schema", "s", ["database", "d"]], ["schema", "s", ["schema", "d", None]]]
TEMPORAL = [None, {"for": ["between", ["systime"], ["raw", "2020-01-01"], ["raw", "2020-02-01"]]},
            {"for_portion": ["from_to", ["systime"], ["raw", "2020-01-01"], ["raw", "2020-02-01"]]}]
QCLS = [None, "mysql"]


def table_variants():
    out = []
    for name, (si, schema), alias, (ti, temp), qc in itertools.product(["t", "u"], enumerate(SCHEMAS), [None, "xq"], enumerate(TEMPORAL), QCLS):
        extra = dict(temp or {})
        if qc:
            extra["query_cls"] = qc
        spec = ["tbl", name, schema, alias, extra or None]
        dims = (name, si, alias, ti, qc)
        out.append((spec, dims))
    return out


def schema_key(si):
    # the schema forms denote: none | s | d.s | s | d.s | d.s
    return {0: None, 1: ("s",), 2: ("d", "s"), 3: ("s",), 4: ("d", "s"), 5: ("d", "s")}[si]


def build_src(spec):
    env = prog.Env("generic", {"Z": spec})
    return env.src("Z")


def other_variants():
    """(label, factory) for non-table objects"""
    P = prog.lib()[0]
    out = []
    for spec in ["s", "u", ["schema", "s", ["database", "d"]], ["schema", "s", ["schema", "d", None]], ["schema", "s", None], ["database", "d"], ["database", "s"]]:
        out.append(("schema:%r" % (spec,), lambda spec=spec: prog.build_expr(["schemaobj", spec], prog.Env("generic", {}))))
    sub = {"cls": "generic", "sources": {}, "steps": [["from_", [["py", "t"]]], ["select", [["py", "a"]]]]}
    for name in ["c1", "c2"]:
        for q in [None, sub]:
            out.append(("aliasedq:%s:%s" % (name, bool(q)), lambda name=name, q=q: P.AliasedQuery(name, prog.build_program(q) if q else None)))
    for tbl in ["t", "u"]:
        for alias in [None, "qa", "qb"]:
            for cls in ["generic", "mysql"]:
                def mk(tbl=tbl, alias=alias, cls=cls):
                    q = prog.query_cls(cls).from_(tbl).select("a")
                    return q.as_(alias) if alias else q
                out.append(("qb:%s:%s:%s" % (tbl, alias, cls), mk))
    return out


def safe_eq(a, b):
    r = (a == b)
    if not isinstance(r, bool):
        raise HarnessError("== returned %r" % type(r))
    return r


def safe_hash(x):
    try:
        return hash(x)
    except TypeError:
        return None


def check_pair(la, a, lb, b, a2, kind):
    """laws on one ordered pair; a2 is an equal-but-distinct rebuild of a"""
    out = []
    tname = next((c.__name__ for c in type(a).__mro__ if "__eq__" in vars(c)), type(a).__name__)
    if "temporal" in kind:
        kind = "temporal"
    if not safe_eq(a, a) or not safe_eq(a, a2):
        out.append((mksig(tname, "reflexive"), "%s != itself / its identical rebuild" % la))
    eq_ab, eq_ba = safe_eq(a, b), safe_eq(b, a)
    if eq_ab != eq_ba:
        out.append((mksig(tname, "symmetric", kind), "%s == %s is %s but the converse is %s" % (la, lb, eq_ab, eq_ba)))
    if (a != b) != (not eq_ab):
        out.append((mksig(tname, "ne_is_not_eq", kind), "%s vs %s" % (la, lb)))
    ha, hb = safe_hash(a), safe_hash(b)
    if ha is None:
        # the property speaks of the hashes of tables, schemas, aliased queries and query builders: each of them has one
        out.append((mksig(tname, "unhashable"), "%s (%s) defines == but cannot be hashed: no membership test in a set or dict is possible" % (la, type(a).__name__)))
    if eq_ab and ha is not None and hb is not None and ha != hb:
        out.append((mksig(tname, "eq_implies_hash", kind), "%s == %s but their hashes differ" % (la, lb)))
    # equality unchanged by rendering
    for o in (a, b):
        try:
            str(o)
            o.get_sql(prog.sql_context("mysql"))
        except Exception:
            pass
    if safe_eq(a, b) != eq_ab or safe_hash(a) != ha:
        out.append((mksig(tname, "changed_by_rendering", kind), "%s vs %s" % (la, lb)))
    if ha is not None and hb is not None:
        in_set = a in {b}
        in_dict = a in dict.fromkeys([b])
        if in_set != eq_ab or in_dict != eq_ab:
            out.append((mksig(tname, "membership", kind), "%s in {%s} is %s, == is %s" % (la, lb, in_set, eq_ab)))
        if (len({a} - {b}) == 0) != eq_ab:
            out.append((mksig(tname, "set_difference", kind), "%s vs %s" % (la, lb)))
    return out


def dims_diff(da, db):
    names = ["name", "schema", "alias", "temporal", "query_cls"]
    d = [n for n, x, y in zip(names, da, db) if x != y]
    return d


def run_tables(col, slice_k=None, nslices=1):
    vs = table_variants()
    objs = [build_src(s) for s, _ in vs]
    objs2 = [build_src(s) for s, _ in vs]
    n = len(vs)
    eqm = [[None] * n for _ in range(n)]
    for i in range(n):
        if slice_k is not None and i % nslices != slice_k:
            continue
        for j in range(n):
            da, db = vs[i][1], vs[j][1]
            dd = dims_diff(da, db)
            if da[1] != db[1] and schema_key(da[1]) == schema_key(db[1]) and "schema" in dd:
                dd = [x for x in dd if x != "schema"] + ["schema_form"]
            kind = "+".join(dd) if dd else "same"
            la, lb = "T%r" % (da,), "T%r" % (db,)
            case = {"mode": "table_pair", "a": vs[i][0], "b": vs[j][0]}
            nontriv = (i != j) and (len(dd) <= 1)
            col.case(case, nontriv, classes=("table_pair",))
            for sig, detail in check_pair(la, objs[i], lb, objs[j], objs2[i], kind):
                col.violation(sig, case, detail)
            eqm[i][j] = safe_eq(objs[i], objs[j])
            # expected equality by the documented identity
            want = (da[0] == db[0] and schema_key(da[1]) == schema_key(db[1]) and da[2] == db[2])
            if eqm[i][j] != want:
                col.violation(mksig("Table", "identity", kind), case, "%s == %s is %s, documented identity says %s" % (la, lb, eqm[i][j], want))
    if slice_k is None or nslices == 1:
        # transitivity over the whole matrix
        for i in range(n):
            for j in range(n):
                if eqm[i][j]:
                    for k in range(n):
                        if eqm[j][k] and not eqm[i][k]:
                            col.violation(mksig("Table", "transitive"), {"mode": "table_triple", "a": vs[i][0], "b": vs[j][0], "c": vs[k][0]}, "a==b, b==c, a!=c")
        col.count("table_triples_checked", n * n * n)
        # membership of every variant in a set / dict of all variants vs linear search
        pool = objs
        s_all = set(pool)
        for i in range(n):
            lin = any(safe_eq(objs2[i], o) for o in pool)
            if (objs2[i] in s_all) != lin:
                col.violation(mksig("Table", "membership_pool"), {"mode": "table_pool", "a": vs[i][0]}, "set membership %s, linear search %s" % (objs2[i] in s_all, lin))
    col.exhaustive = True


def run_derived(col):
    """tables that were USED (hashed, compared, rendered) before a builder call derives another table from them: the derived table must be
    indistinguishable - by ==, hash and membership - from one built directly"""
    import pypika_tortoise as P

    for spec, dims in table_variants():
        if dims[2] is not None or dims[3] != 0:
            continue  # start from tables without alias and temporal clause
        for how in ("as_", "for_", "for_portion"):
            base = build_src(spec)
            hash(base), base == base, str(base), {base}  # noqa: B018 - the table has a history before the call
            if how == "as_":
                derived = base.as_("dz")
                direct = build_src(spec[:3] + ["dz"] + spec[4:])
            elif how == "for_":
                crit = P.Field("valid").between(1, 2)
                derived = base.for_(crit)
                direct = build_src(spec).for_(crit)
            else:
                crit = P.Field("valid").from_to(1, 2)
                derived = base.for_portion(crit)
                direct = build_src(spec).for_portion(crit)
            la, lb = "T%r.%s(..) after use" % (dims, how), "the same table built directly"
            case = {"mode": "derived", "spec": spec, "how": how}
            col.case(case, True, classes=("derived_table:" + how,))
            for sig, detail in check_pair(la, derived, lb, direct, derived, "derived:" + how):
                col.violation(sig, case, detail)
            if not safe_eq(derived, direct):
                col.violation(mksig("Table", "identity", "derived:" + how), case, "%s != %s" % (la, lb))


def run_others(col):
    vs = other_variants()
    for (la, fa), (lb, fb) in itertools.product(vs, vs):
        a, b, a2 = fa(), fb(), fa()
        if type(a).__mro__[-2] is not type(b).__mro__[-2] and False:
            continue
        kind = "same" if la == lb else "diff"
        case = {"mode": "other_pair", "a": la, "b": lb}
        col.case(case, la != lb and la.split(":")[0] == lb.split(":")[0], classes=("other_pair:" + la.split(":")[0],))
        for sig, detail in check_pair(la, a, lb, b, a2, kind + ":" + la.split(":")[0] + "/" + lb.split(":")[0]):
            col.violation(sig, case, detail)
    labels = [l for l, _ in vs]
    objs = [f() for _, f in vs]
    n = len(objs)
    for i, j, k in itertools.product(range(n), repeat=3):
        try:
            if safe_eq(objs[i], objs[j]) and safe_eq(objs[j], objs[k]) and not safe_eq(objs[i], objs[k]):
                col.violation(mksig(type(objs[i]).__name__, "transitive"), {"mode": "other_triple", "a": labels[i], "b": labels[j], "c": labels[k]}, "a==b, b==c, a!=c")
        except HarnessError:
            raise
    unhash = sorted({type(o).__name__ for o in objs if safe_hash(o) is None})
    col.notes["unhashable_types"] = unhash


# ---- (b) fields_ / tables_ ------------------------------------------------------------------------------------------

SRC = {"A": ["tbl", "ta", None, None], "B": ["tbl", "tb", None, None], "C": ["tbl", "tc", "sch", None], "AX": ["tbl", "ta", None, "x"],
       # same table name in another schema, and an alias that equals another table's name: same rendered namespace, different tables
       "AS": ["tbl", "ta", "s1", None], "AS2": ["tbl", "ta", ["d", "s1"], None], "BA": ["tbl", "tb", None, "ta"],
       # two references to one CTE under aliases of their own (a self-join of the CTE), and the bare reference
       "CP": ["cte", "cc", "p"], "CQ": ["cte", "cc", "q"], "CC": ["cte", "cc"]}
KEYS = tuple(SRC)
NAMES = ("a", "b")


def ident(spec):
    if spec[0] == "cte":
        return ("cte:" + spec[1], None, spec[2] if len(spec) > 2 and spec[2] else spec[1])  # a bare reference answers to the CTE's own name
    sch = spec[2]
    return (spec[1], tuple(sch) if isinstance(sch, list) else ((sch,) if sch else None), spec[3])


def lib_ident(t):
    if type(t).__name__ == "AliasedQuery":
        return ("cte:" + t.name, None, t.alias)
    sch = getattr(t, "_schema", None)
    path = []
    while sch is not None:
        path.insert(0, sch._name)
        sch = sch._parent
    return (getattr(t, "_table_name", None), tuple(path) or None, t.alias)


def fcol():
    return st.tuples(st.just("col"), st.sampled_from(KEYS), st.sampled_from(NAMES)).map(list)


def _mk_critset(node, env):
    """["anyset" | "allset", [criterion, ...]]: Criterion.any / Criterion.all given a Python SET of criteria (an Iterable, like a list)"""
    import pypika_tortoise as P

    items = {prog.build_expr(n, env) for n in node[1]}
    return P.Criterion.any(items) if node[0] == "anyset" else P.Criterion.all(items)


prog.EXTRA_NODES["anyset"] = _mk_critset
prog.EXTRA_NODES["allset"] = _mk_critset


def same_shape_pair(draw_cmp):
    """one comparison twice: over a column of one table and over the same-named column of another (their un-qualified text is the same)"""
    def mk(t):
        name, val, k1, k2 = t
        return [["eq", ["col", k1, name], ["raw", val]], ["eq", ["col", k2, name], ["raw", val]]]
    return st.tuples(st.sampled_from(NAMES), st.sampled_from([1, 2]), st.sampled_from(KEYS), st.sampled_from(KEYS)).map(mk)


def expr_st():
    leaf = st.one_of(fcol(), fcol(), fcol(), st.sampled_from([1, "v"]).map(lambda v: ["vw", ["raw", v]]))
    crit_kinds = ("eq", "ne", "lt", "ge")

    def extend(ch):
        fc = fcol()
        cmp_ = st.tuples(st.sampled_from(crit_kinds), ch, ch).map(list)
        return st.one_of(
            st.tuples(st.sampled_from(("add", "sub", "mul", "div")), ch, ch).map(list),
            cmp_,
            st.tuples(st.sampled_from(("and", "or")), cmp_, cmp_).map(list),
            # the neutral element on either side: the collection must not depend on which
            st.tuples(st.sampled_from(("and", "or")), cmp_, st.just(["emptycrit"])).map(list),
            st.tuples(st.sampled_from(("and", "or")), st.just(["emptycrit"]), cmp_).map(list),
            # criteria collected in a set before they are combined: the same comparison over same-named columns of two tables stays two criteria
            st.tuples(st.sampled_from(("anyset", "allset")), same_shape_pair(cmp_)).map(list),
            st.tuples(st.sampled_from(("anyset", "allset")), st.lists(cmp_, min_size=1, max_size=3)).map(list),
            st.tuples(st.just("neg"), ch).map(list),
            st.tuples(st.just("not"), cmp_).map(list),
            st.tuples(st.just("isnull"), ch).map(list),
            st.tuples(st.sampled_from(("in", "notin")), ch, st.lists(ch, min_size=1, max_size=2)).map(list),
            st.tuples(st.just("between"), ch, ch, ch).map(list),
            st.tuples(st.just("bitand"), ch, st.just(3)).map(list),
            st.tuples(st.just("like"), ch, ch).map(list),
            st.tuples(st.just("case"), st.lists(st.tuples(cmp_, ch).map(list), min_size=1, max_size=2), st.one_of(st.none(), ch)).map(list),
            st.tuples(st.just("cfn"), st.just("COALESCE"), st.lists(ch, min_size=1, max_size=3)).map(list),
            st.tuples(st.just("fn"), st.sampled_from(["Sum", "Max", "Count"]), st.tuples(ch).map(list)).map(list),
            st.tuples(st.just("call"), st.tuples(st.just("fn"), st.sampled_from(["Sum", "Avg"]), st.tuples(ch).map(list)).map(list), st.just("filter"), st.tuples(cmp_).map(list)).map(list),
            st.tuples(st.just("call"), st.tuples(st.just("an"), st.sampled_from(["Sum", "Max"]), st.tuples(fc).map(list)).map(list), st.just("over"), st.lists(fc, min_size=1, max_size=2)).map(list),
            st.tuples(st.just("call"), st.tuples(st.just("an"), st.just("Rank"), st.just([])).map(list), st.just("orderby"), st.lists(fc, min_size=1, max_size=2)).map(list),
            st.tuples(st.sampled_from(("tuple", "array")), st.lists(ch, min_size=1, max_size=3)).map(list),
            st.tuples(st.just("bracket"), ch).map(list),
            st.tuples(st.sampled_from(("pow", "mod")), ch, st.just(["raw", 2])).map(list),
            st.tuples(st.just("extract"), st.just(["enum", "DatePart", "year"]), fc).map(list),
            st.tuples(st.just("values"), fc).map(list),
            st.tuples(st.just("attz"), fc, st.just("UTC")).map(list),
            st.tuples(st.just("all"), ch).map(list),
            st.tuples(st.just("as"), ch, st.sampled_from(["al"])).map(list),
            st.tuples(st.just("cast"), ch, st.just("INT")).map(list),
        )

    return st.recursive(leaf, extend, max_leaves=8)


def ref_fields(node, out):
    """(table identity, column) pairs of the program data (independent walker)"""
    if isinstance(node, list):
        if node and node[0] == "col" and len(node) >= 3 and isinstance(node[1], str) and node[1] in SRC:
            out.add((ident(SRC[node[1]]), node[2]))
            return out
        if node and node[0] == "enum":
            return out
        for x in node:
            ref_fields(x, out)
    return out


def sub_nodes(node, out):
    if isinstance(node, list) and node and isinstance(node[0], str):
        for x in node[1:]:
            sub_nodes_any(x, out)
        if node[0] not in ("raw", "vw", "enum", "col", "py"):
            out.append(node)
    return out


def sub_nodes_any(x, out):
    if isinstance(x, list):
        if x and isinstance(x[0], str):
            sub_nodes(x, out)
        else:
            for y in x:
                sub_nodes_any(y, out)


def collect_check(node):
    """-> None or (kind, detail)"""
    env = prog.Env("generic", SRC)
    t = prog.build_expr(node, env)
    want = ref_fields(node, set())
    if node == ["emptycrit"] or not hasattr(t, "fields_"):
        return None
    try:
        got = {(lib_ident(f.table), f.name) for f in t.fields_()}
        t.tables_
    except Exception as e:
        return ("collect_raises:" + type(e).__name__, "fields_() / tables_ of the expression raised %r" % (e,))
    if got != want:
        return ("fields_lost" if want - got else "fields_invented", "fields_() = %s, expression mentions %s" % (sorted(map(str, got)), sorted(map(str, want))))
    want_t = {p[0] for p in want if not str(p[0][0]).startswith("cte:")}  # tables_ collects Table objects; a CTE reference is not one
    got_t = {lib_ident(x) for x in t.tables_}
    if got_t != want_t:
        return ("tables_lost" if want_t - got_t else "tables_invented", "tables_ = %s, expression mentions %s" % (sorted(map(str, got_t)), sorted(map(str, want_t))))
    return None


def check_expr(node):
    out = []
    seen = set()
    failing = []
    for sub in sub_nodes(node, []):
        try:
            if any(s is f for f in failing for s in sub_nodes(sub, []) if s is not sub):
                failing.append(sub)
                continue
            r = collect_check(sub)
        except HarnessError:
            raise
        if r is None:
            continue
        failing.append(sub)
        kind, detail = r
        k = sub[0]
        if k == "call":
            k = "call:" + sub[2]
        feat = ""
        if k in ("eq", "ne", "lt", "ge", "add", "sub", "mul", "div", "and", "or", "like", "between", "in", "notin", "tuple", "array", "cfn", "case"):
            # the loss may be the name collision between tables rather than the node kind
            names = [p[1] for p in ref_fields(sub, set())]
            if len(names) != len(set(names)):
                feat = "same_column_name_on_two_tables"
        sig = mksig(kind, feat or k)
        if sig not in seen:
            seen.add(sig)
            out.append((sig, "%s: %s" % (sub, detail)))
    return out


def check_case(case):
    m = case.get("mode")
    if m == "expr":
        return check_expr(case["expr"])
    if m == "table_pair":
        a, b, a2 = build_src(case["a"]), build_src(case["b"]), build_src(case["a"])
        res = check_pair("a", a, "b", b, a2, "pair")
        k = _pair_kind(case)
        k = "temporal" if "temporal" in k else k
        return [(s.rsplit("|", 1)[0] + "|" + k, d) for s, d in res]
    if m in ("table_triple", "table_pool", "other_pair", "other_triple", "derived"):
        col = Collector()
        if m == "derived":
            run_derived(col)
        elif m.startswith("table"):
            run_tables(col)
        else:
            run_others(col)
        return [(s, v[2]) for s, v in col.viol.items()]
    return []


def _pair_kind(case):
    vs = {repr(s): d for s, d in table_variants()}
    da, db = vs.get(repr(case["a"])), vs.get(repr(case["b"]))
    if da is None or db is None:
        return "pair"
    dd = dims_diff(da, db)
    if da[1] != db[1] and schema_key(da[1]) == schema_key(db[1]) and "schema" in dd:
        dd = [x for x in dd if x != "schema"] + ["schema_form"]
    return "+".join(dd) if dd else "same"


def valid_case(case):
    if case.get("mode") == "expr":
        try:
            prog.build_expr(case["expr"], prog.Env("generic", SRC))
            return True
        except (Exception, HarnessError):
            return False
    if case.get("mode") == "table_pair":
        vs = {repr(s) for s, _ in table_variants()}
        return repr(case.get("a")) in vs and repr(case.get("b")) in vs
    return True


def shards(tier, sd):
    out = [("tables", tier, sd), ("others", tier, sd)]
    n = 4 if tier == "quick" else 16
    out += [("expr", tier, sd * 1000 + k) for k in range(n)]
    return out


def run_shard(shard):
    kind, tier, sd = shard
    col = Collector()
    if kind == "tables":
        run_tables(col)
        return col
    if kind == "others":
        run_others(col)
        run_derived(col)
        return col
    nex = 500 if tier == "quick" else 8000

    @seed(sd)
    @settings(max_examples=nex, database=None, deadline=None, suppress_health_check=list(HealthCheck), report_multiple_bugs=False)
    @given(expr_st())
    def prop(node):
        if not (isinstance(node, list) and node and node[0] not in ("col", "vw")):
            return
        pairs = ref_fields(node, set())
        names = [p[1] for p in pairs]
        nt = len({p[0] for p in pairs}) >= 2 and len(names) != len(set(names))
        case = {"mode": "expr", "expr": node}
        col.case(case, nt, classes=("expr", "root:" + node[0]))
        for sig, detail in check_expr(node):
            col.violation(sig, case, detail)

    prop()
    return col
