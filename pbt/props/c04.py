"""C04 - Parameterised rendering is equivalent to inline rendering.

Domain   statements of every kind and class (structured generator pbt/gen.py: selects with joins, subqueries, CTEs, set operations,
         CASE, function arguments, IN lists, arrays, limit/offset; inserts incl. upserts; updates; deletes) carrying unique marker
         values of every supported kind in several clauses.
Oracle   token alignment of the inline and the parameterised rendering through the reference lexer: every placeholder has the
         dialect's style, is numbered 1..n where the dialect numbers, consumes exactly one literal group of the inline text whose
         decoded value equals the listed value; every other token is identical; every listed value is plain data; every
         non-exempt marker value is listed and its text is gone from the SQL.  SQLite statements are executed in both forms.
"""
from __future__ import annotations

import datetime
import decimal
import enum
import json
import sqlite3
import uuid

from hypothesis import HealthCheck, given, seed, settings, strategies as st

from pbt import gen, lex, prog
from pbt.core import Collector, HarnessError, mksig
from pbt.props import c05

ID = "C04"
RULE = ("statements from the structured generator (all kinds, six classes) with unique marker values of every kind (str, int, float, Decimal, bool, date/"
        "datetime/time, UUID, dict, list/array, enum members, '*', allow_parametrize=False) in select list, WHERE/HAVING/ON, IN lists, BETWEEN, CASE, function "
        "arguments, INSERT rows, SET, upsert updates and upsert WHERE, limit/offset, subqueries, CTE bodies and set-operation operands. Non-trivial = >= 2 "
        "parameterised values in >= 2 clauses, or a value below a nesting construct, or pagination under MSSQL/Oracle; distinct = distinct program.")
ASSUMPTIONS = [
    "placeholder styles: ? (generic, SQLite, MSSQL, Oracle), %s (MySQL), $n numbered from 1 (PostgreSQL) - vendor/driver documentation",
    "None is inlined as NULL by design; enum members, '*' and allow_parametrize=False values are inline in both renderings",
    "SQLite execution binds only values sqlite3 accepts natively (str, int, float, bool, None)",
]

CTXS = prog.CLS_NAMES
STYLE = {"generic": "?", "sqlite": "?", "mssql": "?", "oracle": "?", "mysql": "%s", "postgresql": "$"}
EXEMPT = ("enum", "star", "vwnp")


def plain_data(v):
    if v is None or isinstance(v, (str, int, float, bool, decimal.Decimal, datetime.date, datetime.time, uuid.UUID, bytes)):
        return True
    if isinstance(v, enum.Enum):
        return True
    if isinstance(v, (list, tuple)):
        return all(plain_data(x) for x in v)
    if isinstance(v, dict):
        return all(plain_data(k) and plain_data(x) for k, x in v.items())
    return False


def literal_group(ti, i):
    """tokens of one literal starting at index i of the inline stream -> (group, next index) or None"""
    if i >= len(ti):
        return None
    t = ti[i]
    if t.kind == "punct" and t.text == "(":
        # redundant brackets around a single (negative) literal, e.g. a-(-1) vs a-?
        g = literal_group(ti, i + 1)
        if g is not None and g[1] < len(ti) and ti[g[1]].kind == "punct" and ti[g[1]].text == ")" and len(g[0]) <= 2:
            return g[0], g[1] + 1
        return None
    if t.kind in ("str", "num"):
        return [t], i + 1
    if t.kind == "op" and t.text == "-" and i + 1 < len(ti) and ti[i + 1].kind == "num":
        return [t, ti[i + 1]], i + 2
    if t.kind == "word" and t.value in ("TRUE", "FALSE", "NULL"):
        return [t], i + 1
    # array literal: [ ... ] or ARRAY[ ... ]
    j = i
    if t.kind == "word" and t.value == "ARRAY":
        j += 1
    if j < len(ti) and ti[j].kind == "punct" and ti[j].text == "[":
        depth = 0
        k = j
        while k < len(ti):
            if ti[k].kind == "punct" and ti[k].text == "[":
                depth += 1
            elif ti[k].kind == "punct" and ti[k].text == "]":
                depth -= 1
                if depth == 0:
                    return ti[i:k + 1], k + 1
            k += 1
    return None


def array_matches(v, group, cls):
    toks = [t for t in group if not (t.kind == "word" and t.value == "ARRAY")]
    if len(toks) == 1 and toks[0].kind == "str" and toks[0].value == "{}":
        return list(v) == []
    inner = toks[1:-1]
    items = []
    cur = []
    for t in inner:
        if t.kind == "punct" and t.text == ",":
            items.append(cur)
            cur = []
        else:
            cur.append(t)
    if cur or inner:
        items.append(cur)
    if len(items) != len(v):
        return False
    return all(c05.expected_matches(x, g, cls, "array_elem") for x, g in zip(v, items))


def align(cls, s_inline, s_par, vals):
    """-> None or (failure kind, detail)"""
    ti, tp = lex.lex(s_inline, cls), lex.lex(s_par, cls)
    for t in tp + ti:
        if t.kind in ("bad", "comment"):
            return "token", "bad/comment token in %r" % (s_par,)
    style = STYLE[cls]
    params = [t for t in tp if t.kind == "param"]
    for t in params:
        ok = t.text == style if style != "$" else (t.text.startswith("$") and t.text[1:].isdigit())
        if not ok:
            return "style", "placeholder %r under %s in %r" % (t.text, cls, s_par)
    if cls == "postgresql":
        nums = [int(t.text[1:]) for t in params]
        if nums != list(range(1, len(nums) + 1)):
            return "numbering", "placeholders %r in %r" % (nums, s_par)
    if len(params) != len(vals):
        return "count", "%d placeholders for %d values in %r / %r" % (len(params), len(vals), s_par, vals)
    i = j = 0
    k = 0
    while j < len(tp):
        t = tp[j]
        if t.kind == "param":
            g = literal_group(ti, i)
            if g is None:
                return "misaligned", "placeholder #%d of %r has no literal at the same place in %r" % (k + 1, s_par, s_inline)
            group, i2 = g
            v = vals[k]
            ok = array_matches(v, group, cls) if isinstance(v, (list, tuple)) and not (len(group) == 1 and group[0].kind == "str" and group[0].value != "{}") else c05.expected_matches(v, group, cls, "where_eq")
            if not ok and isinstance(v, datetime.time) and cls == "mysql" and len(group) == 1:
                ok = group[0].value == v.replace(tzinfo=None).isoformat()
            if not ok:
                return "order", "placeholder #%d of %r stands for %r but the list has %r" % (k + 1, s_par, "".join(x.text for x in group), v)
            i = i2
            j += 1
            k += 1
            continue
        if i >= len(ti) or ti[i].key != t.key:
            return "token_mismatch", "%r vs %r differ at token %d (%r / %r)" % (s_par, s_inline, j, t.text, ti[i].text if i < len(ti) else None)
        i += 1
        j += 1
    if i != len(ti):
        return "token_mismatch", "inline rendering has extra tokens: %r vs %r" % (s_inline, s_par)
    return None


def marker_texts(kind, node):
    """textual fragments that must vanish from the parameterised SQL, and the python value that must be listed"""
    if kind in ("int", "negint"):
        return [str(abs(node[1]))], node[1]
    if kind == "str":
        return [node[1]], node[1]
    if kind == "float":
        return [repr(node[1])], node[1]
    if kind in ("decimal", "date", "datetime", "time", "uuid"):
        return [node[2]], prog.pyv(node[1], node[2])
    if kind == "dict":
        return [list(node[1])[0]], node[1]
    if kind == "list":
        return [str(node[1][0]), node[1][1]], node[1]
    return [], None


_con = None
SCHEMA = ["CREATE TABLE %s (id INTEGER, a, b, c)" % t for t in ("t1", "t2", "t3", "t5")] + ["ATTACH ':memory:' AS sch", "CREATE TABLE sch.t4 (id INTEGER, a, b, c)"]


def fresh_db():
    con = sqlite3.connect(":memory:")
    for s in SCHEMA:
        con.execute(s)
    for t in ("t1", "t2", "t3", "t5", "sch.t4"):
        con.executemany("INSERT INTO %s VALUES (?,?,?,?)" % t, [(1, 900001, "v1", None), (2, 5, "x", 2.5), (3, None, None, -1), (4, 900002, "v2", 7)])
    return con


def run_sqlite(sql, vals):
    con = fresh_db()
    try:
        cur = con.execute(sql, vals) if vals is not None else con.execute(sql)
        rows = cur.fetchall()
        dump = [con.execute("SELECT * FROM %s ORDER BY rowid" % t).fetchall() for t in ("t1", "t2", "t3")]
        return ("ok", rows, dump)
    except sqlite3.Error as e:
        return ("err", type(e).__name__ + ":" + str(e).split(":")[0])
    except (ValueError, OverflowError) as e:
        return ("err", type(e).__name__)
    finally:
        con.close()


def check_program(p):
    out = []
    cls = p["cls"]
    try:
        q = prog.build_program(p)
        ctx = prog.sql_context(cls)
        s_inline = q.get_sql(ctx)
    except Exception as e:
        return [("__build__", type(e).__name__)]
    try:
        s_par, vals = prog.render(q, cls, True)
    except Exception as e:
        return [("raises:" + type(e).__name__, "parameterised rendering raised %r; inline is %r" % (e, s_inline))]
    if hasattr(type(q), "get_parameterized_sql"):
        try:
            s2, v2 = q.get_parameterized_sql(ctx)
            if s2 != s_par or [repr(x) for x in v2] != [repr(x) for x in vals]:
                out.append(("gps_differs", "get_parameterized_sql gives %r %r, get_sql(parameterizer) %r %r" % (s2, v2, s_par, vals)))
        except Exception as e:
            out.append(("raises:" + type(e).__name__, "get_parameterized_sql raised %r" % (e,)))
    for v in vals:
        if not plain_data(v):
            out.append(("non_data_value", "parameter list holds %r (%s) for %r" % (v, type(v).__name__, s_par)))
            return out
    a = align(cls, s_inline, s_par, vals)
    if a is not None:
        out.append(a)
        return out
    # every non-exempt marker value is listed and its text is gone
    tp = lex.lex(s_par, cls)
    lit_texts = [t.value if t.kind == "str" else t.text for t in tp if t.kind in ("str", "num")]
    ti_texts = [t.value if t.kind == "str" else t.text for t in lex.lex(s_inline, cls) if t.kind in ("str", "num")]
    for kind, node in p.get("markers", []):
        if kind in EXEMPT or kind == "bool":
            continue
        frags, pyval = marker_texts(kind, node)
        rendered = any(any(f in x for x in ti_texts) for f in frags)
        if not rendered:
            continue  # the clause carrying this value is not rendered by this dialect / statement shape
        if any(any(f in x for x in lit_texts) for f in frags):
            out.append(("residue", "value %r is still inline in %r" % (pyval, s_par)))
            break
    for kind, node in p.get("markers", []):
        if kind in EXEMPT:
            frags = {"enum": None, "star": "*", "vwnp": node[1][1] if kind == "vwnp" else None}[kind]
            if frags and frags in [str(v) for v in vals]:
                out.append(("exempt_parameterised", "%r was parameterised in %r" % (frags, s_par)))
    from pbt.props.c13 import _limited_setop_operand  # ORDER BY / LIMIT on a compound operand has no counterpart in SQLite's grammar

    if cls == "sqlite" and not out and not _limited_setop_operand(p) and all(isinstance(v, (str, int, float, bool)) or v is None for v in vals) and all(not isinstance(v, int) or abs(v) < 2 ** 63 for v in vals):
        ra, rb = run_sqlite(s_inline, None), run_sqlite(s_par, vals)
        if ra[0] != rb[0] or (ra[0] == "ok" and ra != rb):
            if not (ra[0] == "err" and rb[0] == "err"):
                out.append(("engine", "inline %r -> %r ; parameterised %r %r -> %r" % (s_inline, ra[:2], s_par, vals, rb[:2])))
    return out


def clause_of(p, s_par):
    return p.get("kind", "?")


def check_case(case):
    res = check_program(case)
    return [(mksig(case["cls"] if k in ("style", "numbering") or k.startswith("raises") else "any", case.get("kind", "?"), k), d) for k, d in res if k != "__build__"]


def valid_case(case):
    try:
        prog.build_program(case)
        return case["cls"] in CTXS
    except (Exception, HarnessError):
        return False


def nontrivial(p, nvals):
    txt = json.dumps(p["steps"])
    nested = '"q"' in txt
    return nvals >= 2 or nested or (p["cls"] in ("mssql", "oracle") and ('"limit"' in txt or '"offset"' in txt))


def shards(tier, sd):
    n = 8 if tier == "quick" else 32
    return [(tier, sd * 1000 + k) for k in range(n)]


def run_shard(shard):
    tier, sd = shard
    col = Collector()
    nex = 400 if tier == "quick" else 6000

    @seed(sd)
    @settings(max_examples=nex, database=None, deadline=None, suppress_health_check=list(HealthCheck), report_multiple_bugs=False)
    @given(gen.statement(value_kinds=gen.VALUE_KINDS))
    def prop(p):
        res = check_program(p)
        if res and res[0][0] == "__build__":
            col.count("build_raised:" + res[0][1])
            return
        nv = sum(1 for k, _ in p.get("markers", []) if k not in EXEMPT)
        sample = None
        if len(col.samples) < col.MAX_SAMPLES and nontrivial(p, nv):
            try:
                sample = {"cls": p["cls"], "steps": p["steps"], "parameterised": list(map(str, prog.render(prog.build_program(p), p["cls"], True)))}
            except Exception:
                pass
        col.case(p, nontrivial(p, nv), classes=("cls:" + p["cls"], "kind:" + p.get("kind", "?")) + tuple("value:" + k for k, _ in p.get("markers", [])[:6]), sample=sample)
        for k, d in res:
            col.violation(mksig(p["cls"] if k in ("style", "numbering") or k.startswith("raises") else "any", p.get("kind", "?"), k), p, d)

    prop()
    return col
