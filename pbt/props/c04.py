"""C04 - Parameterised rendering is equivalent to inline rendering.

Domain   statements of every kind and class (structured generator pbt/gen.py: selects with joins, subqueries, CTEs, set operations,
         CASE, function arguments, IN lists, arrays, limit/offset; inserts incl. upserts; updates; deletes) carrying unique marker
         values of every supported kind in several clauses.
Oracle   token alignment of the inline and the parameterised rendering through the reference lexer: every placeholder has the
         dialect's style, is numbered 1..n where the dialect numbers, consumes exactly one literal group of the inline text whose
         decoded value equals the listed value; every other token is identical; every listed value is plain data; every
         non-exempt marker value is listed and its text is gone from the SQL.  SQLite statements are executed in both forms.
"""
from __future__ import annotations

import datetime
import decimal
import enum
import json
import sqlite3
import uuid

from hypothesis import HealthCheck, given, seed, settings, strategies as st

from pbt import gen, lex, prog
from pbt.core import Collector, HarnessError, mksig
from pbt.props import c05

ID = "C04"
RULE = ("statements from the structured generator (all kinds, six classes) with unique marker values of every kind (str, int, float, Decimal, bool, date/"
        "datetime/time, UUID, dict, list/array, enum members, '*', allow_parametrize=False) in select list, WHERE/HAVING/ON, IN lists, BETWEEN, CASE, function "
        "arguments, INSERT rows, SET, upsert updates and upsert WHERE, limit/offset, subqueries, CTE bodies and set-operation operands. Non-trivial = >= 2 "
        "parameterised values in >= 2 clauses, or a value below a nesting construct, or pagination under MSSQL/Oracle; distinct = distinct program. Enumerated family: 51 composite "
        "expression shapes (arithmetic, comparisons, IN list / value term / subquery, BETWEEN, CASE, functions, aggregates with FILTER / DISTINCT, window functions, tuples, arrays, NOT, "
        "nested) with a distinct value in EVERY operand slot x 7 clauses x 6 classes (every case counts). The same with negative numbers in every slot, and PostgreSQL JSON operators with values on their right.")
ASSUMPTIONS = [
    "placeholder styles: ? (generic, SQLite, MSSQL, Oracle), %s (MySQL), $n numbered from 1 (PostgreSQL) - vendor/driver documentation",
    "None is inlined as NULL by design; enum members, '*' and allow_parametrize=False values are inline in both renderings",
    "SQLite execution binds only values sqlite3 accepts natively (str, int, float, bool, None)",
]

CTXS = prog.CLS_NAMES
STYLE = {"generic": "?", "sqlite": "?", "mssql": "?", "oracle": "?", "mysql": "%s", "postgresql": "$"}
EXEMPT = ("enum", "star", "vwnp")


def plain_data(v):
    if v is None or isinstance(v, (str, int, float, bool, decimal.Decimal, datetime.date, datetime.time, uuid.UUID, bytes)):
        return True
    if isinstance(v, enum.Enum):
        return True
    if isinstance(v, (list, tuple)):
        return all(plain_data(x) for x in v)
    if isinstance(v, dict):
        return all(plain_data(k) and plain_data(x) for k, x in v.items())
    return False


def literal_group(ti, i):
    """tokens of one literal starting at index i of the inline stream -> (group, next index) or None"""
    if i >= len(ti):
        return None
    t = ti[i]
    if t.kind == "punct" and t.text == "(":
        # redundant brackets around a single (negative) literal, e.g. a-(-1) vs a-?
        g = literal_group(ti, i + 1)
        if g is not None and g[1] < len(ti) and ti[g[1]].kind == "punct" and ti[g[1]].text == ")" and len(g[0]) <= 2:
            return g[0], g[1] + 1
        return None
    if t.kind in ("str", "num"):
        return [t], i + 1
    if t.kind == "op" and t.text == "-" and i + 1 < len(ti) and ti[i + 1].kind == "num":
        return [t, ti[i + 1]], i + 2
    if t.kind == "word" and t.value in ("TRUE", "FALSE", "NULL"):
        return [t], i + 1
    # array literal: [ ... ] or ARRAY[ ... ]
    j = i
    if t.kind == "word" and t.value == "ARRAY":
        j += 1
    if j < len(ti) and ti[j].kind == "punct" and ti[j].text == "[":
        depth = 0
        k = j
        while k < len(ti):
            if ti[k].kind == "punct" and ti[k].text == "[":
                depth += 1
            elif ti[k].kind == "punct" and ti[k].text == "]":
                depth -= 1
                if depth == 0:
                    return ti[i:k + 1], k + 1
            k += 1
    return None


def array_matches(v, group, cls):
    toks = [t for t in group if not (t.kind == "word" and t.value == "ARRAY")]
    if len(toks) == 1 and toks[0].kind == "str" and toks[0].value == "{}":
        return list(v) == []
    inner = toks[1:-1]
    items = []
    cur = []
    for t in inner:
        if t.kind == "punct" and t.text == ",":
            items.append(cur)
            cur = []
        else:
            cur.append(t)
    if cur or inner:
        items.append(cur)
    if len(items) != len(v):
        return False
    return all(c05.expected_matches(x, g, cls, "array_elem", engine_literals=False) for x, g in zip(v, items))


def align(cls, s_inline, s_par, vals):
    """-> None or (failure kind, detail)"""
    ti, tp = lex.lex(s_inline, cls), lex.lex(s_par, cls)
    for t in tp + ti:
        if t.kind in ("bad", "comment"):
            return "token", "bad/comment token in %r" % (s_par,)
    style = STYLE[cls]
    params = [t for t in tp if t.kind == "param"]
    for t in params:
        ok = t.text == style if style != "$" else (t.text.startswith("$") and t.text[1:].isdigit())
        if not ok:
            return "style", "placeholder %r under %s in %r" % (t.text, cls, s_par)
    if cls == "postgresql":
        nums = [int(t.text[1:]) for t in params]
        if nums != list(range(1, len(nums) + 1)):
            return "numbering", "placeholders %r in %r" % (nums, s_par)
    if len(params) != len(vals):
        return "count", "%d placeholders for %d values in %r / %r" % (len(params), len(vals), s_par, vals)
    i = j = 0
    k = 0
    while j < len(tp):
        t = tp[j]
        if t.kind == "param":
            g = literal_group(ti, i)
            if g is None:
                return "misaligned", "placeholder #%d of %r has no literal at the same place in %r" % (k + 1, s_par, s_inline)
            group, i2 = g
            v = vals[k]
            ok = array_matches(v, group, cls) if isinstance(v, (list, tuple)) and not (len(group) == 1 and group[0].kind == "str" and group[0].value != "{}") else c05.expected_matches(v, group, cls, "where_eq", engine_literals=False)
            if not ok and isinstance(v, datetime.time) and cls == "mysql" and len(group) == 1:
                ok = group[0].value == v.replace(tzinfo=None).isoformat()
            if not ok:
                return "order", "placeholder #%d of %r stands for %r but the list has %r" % (k + 1, s_par, "".join(x.text for x in group), v)
            i = i2
            j += 1
            k += 1
            continue
        if i >= len(ti) or ti[i].key != t.key:
            return "token_mismatch", "%r vs %r differ at token %d (%r / %r)" % (s_par, s_inline, j, t.text, ti[i].text if i < len(ti) else None)
        i += 1
        j += 1
    if i != len(ti):
        return "token_mismatch", "inline rendering has extra tokens: %r vs %r" % (s_inline, s_par)
    return None


def marker_texts(kind, node):
    """textual fragments that must vanish from the parameterised SQL, and the python value that must be listed"""
    if kind in ("int", "negint"):
        return [str(abs(node[1]))], node[1]
    if kind == "str":
        return [node[1]], node[1]
    if kind == "float":
        return [repr(node[1])], node[1]
    if kind in ("decimal", "date", "datetime", "time", "uuid"):
        return [node[2]], prog.pyv(node[1], node[2])
    if kind == "dict":
        return [list(node[1])[0]], node[1]
    if kind == "list":
        return [str(node[1][0]), node[1][1]], node[1]
    return [], None


_con = None
SCHEMA = ["CREATE TABLE %s (id INTEGER, a, b, c)" % t for t in ("t1", "t2", "t3", "t5")] + ["ATTACH ':memory:' AS sch", "CREATE TABLE sch.t4 (id INTEGER, a, b, c)"]


def fresh_db():
    con = sqlite3.connect(":memory:")
    for s in SCHEMA:
        con.execute(s)
    for t in ("t1", "t2", "t3", "t5", "sch.t4"):
        con.executemany("INSERT INTO %s VALUES (?,?,?,?)" % t, [(1, 900001, "v1", None), (2, 5, "x", 2.5), (3, None, None, -1), (4, 900002, "v2", 7)])
    return con


def run_sqlite(sql, vals):
    con = fresh_db()
    try:
        cur = con.execute(sql, vals) if vals is not None else con.execute(sql)
        rows = cur.fetchall()
        dump = [con.execute("SELECT * FROM %s ORDER BY rowid" % t).fetchall() for t in ("t1", "t2", "t3")]
        return ("ok", rows, dump)
    except sqlite3.Error as e:
        return ("err", type(e).__name__ + ":" + str(e).split(":")[0])
    except (ValueError, OverflowError) as e:
        return ("err", type(e).__name__)
    finally:
        con.close()


def check_program(p):
    out = []
    cls = p["cls"]
    try:
        q = prog.build_program(p)
        ctx = prog.sql_context(cls)
        s_inline = q.get_sql(ctx)
    except Exception as e:
        return [("__build__", type(e).__name__)]
    try:
        s_par, vals = prog.render(q, cls, True)
    except Exception as e:
        return [("raises:" + type(e).__name__, "parameterised rendering raised %r; inline is %r" % (e, s_inline))]
    if type(q).__name__ == "_SetOperation" and not hasattr(type(q), "get_parameterized_sql"):
        # a set operation is a statement like any other; without the method the call falls into __getattr__ and fails with TypeError
        try:
            q.get_parameterized_sql(ctx)
        except Exception as e:
            out.append(("gps_missing", "get_parameterized_sql on a set operation raised %r" % (e,)))
    if hasattr(type(q), "get_parameterized_sql"):
        try:
            s2, v2 = q.get_parameterized_sql(ctx)
            if s2 != s_par or [repr(x) for x in v2] != [repr(x) for x in vals]:
                out.append(("gps_differs", "get_parameterized_sql gives %r %r, get_sql(parameterizer) %r %r" % (s2, v2, s_par, vals)))
        except Exception as e:
            out.append(("raises:" + type(e).__name__, "get_parameterized_sql raised %r" % (e,)))
    for v in vals:
        if not plain_data(v):
            out.append(("non_data_value", "parameter list holds %r (%s) for %r" % (v, type(v).__name__, s_par)))
            return out
    a = align(cls, s_inline, s_par, vals)
    if a is not None:
        out.append(a)
        return out
    # every non-exempt marker value is listed and its text is gone
    tp = lex.lex(s_par, cls)
    lit_texts = [t.value if t.kind == "str" else t.text for t in tp if t.kind in ("str", "num")]
    ti_texts = [t.value if t.kind == "str" else t.text for t in lex.lex(s_inline, cls) if t.kind in ("str", "num")]
    for kind, node in p.get("markers", []):
        if kind in EXEMPT or kind == "bool":
            continue
        frags, pyval = marker_texts(kind, node)
        rendered = any(any(f in x for x in ti_texts) for f in frags)
        if not rendered:
            continue  # the clause carrying this value is not rendered by this dialect / statement shape
        if any(any(f in x for x in lit_texts) for f in frags):
            out.append(("residue", "value %r is still inline in %r" % (pyval, s_par)))
            break
    def _has_enum(v):
        return isinstance(v, enum.Enum) or (isinstance(v, (list, tuple)) and any(_has_enum(x) for x in v)) or (isinstance(v, dict) and any(_has_enum(x) for x in v.values()))

    if any(_has_enum(v) for v in vals):
        out.append(("exempt_parameterised", "an enum member (inline by contract) travels in the parameter list %r of %r" % (vals, s_par)))
    for kind, node in p.get("markers", []):
        if kind in EXEMPT:
            frags = {"enum": None, "star": "*", "vwnp": node[1][1] if kind == "vwnp" else None}[kind]
            if frags and frags in [str(v) for v in vals]:
                out.append(("exempt_parameterised", "%r was parameterised in %r" % (frags, s_par)))
    from pbt.props.c13 import _limited_setop_operand  # ORDER BY / LIMIT on a compound operand has no counterpart in SQLite's grammar

    if cls == "sqlite" and not out and not _limited_setop_operand(p) and all(isinstance(v, (str, int, float, bool)) or v is None for v in vals) and all(not isinstance(v, int) or abs(v) < 2 ** 63 for v in vals):
        ra, rb = run_sqlite(s_inline, None), run_sqlite(s_par, vals)
        if ra[0] != rb[0] or (ra[0] == "ok" and ra != rb):
            if not (ra[0] == "err" and rb[0] == "err"):
                out.append(("engine", "inline %r -> %r ; parameterised %r %r -> %r" % (s_inline, ra[:2], s_par, vals, rb[:2])))
    return out


# ---- enumerated family: every operand slot of every composite expression kind holds its own value ---------------------------------
# (a rendering that visits the operands of one node in another order than it writes them lists the values out of placeholder order)

A_ = ["col", "T", "a"]
B_ = ["col", "T", "b"]


def _subq(h):
    return ["q", {"cls": "inherit", "sources": {}, "steps": [["from_", [["src", "U"]]], ["select", [["col", "U", "a"]]], ["where", [["lt", ["col", "U", "b"], h]]]]}]


def slot_templates():
    """name -> (number of holes, function(list of hole nodes) -> expression node)"""
    t = {}
    for op in ("add", "sub", "mul", "div"):
        t["arith_" + op] = (2, lambda h, op=op: [op, h[0], h[1]])
        t["arith3_" + op] = (3, lambda h, op=op: [op, [op, h[0], h[1]], h[2]])
    for op in ("eq", "ne", "gt", "ge", "lt", "le"):
        t["cmp_" + op] = (2, lambda h, op=op: [op, ["add", A_, h[0]], h[1]])
    for op in ("in", "notin"):
        t[op + "_list"] = (4, lambda h, op=op: [op, ["add", A_, h[0]], [h[1], h[2], h[3]]])
        t[op + "_value_term"] = (3, lambda h, op=op: [op, h[0], [h[1], h[2]]])
        t[op + "_subquery"] = (2, lambda h, op=op: [op, ["sub", A_, h[0]], _subq(h[1])])
    t["between"] = (3, lambda h: ["between", ["add", A_, h[0]], h[1], h[2]])
    t["between_terms"] = (3, lambda h: ["between", ["add", A_, h[0]], ["add", B_, h[1]], ["add", B_, h[2]]])
    t["like"] = (1, lambda h: ["like", A_, ["raw", "p%"]])
    t["case"] = (4, lambda h: ["case", [[["eq", ["add", A_, h[0]], h[1]], h[2]]], h[3]])
    t["case_two_whens"] = (5, lambda h: ["case", [[["gt", A_, h[0]], h[1]], [["lt", A_, h[2]], h[3]]], h[4]])
    t["fn_coalesce"] = (3, lambda h: ["fn", "Coalesce", [["add", A_, h[0]], h[1], h[2]]])
    t["cfn"] = (3, lambda h: ["cfn", "F", [h[0], ["mul", B_, h[1]], h[2]]])
    t["agg_filter"] = (2, lambda h: ["call", ["fn", "Sum", [["add", A_, h[0]]]], "filter", [["gt", B_, h[1]]]])
    t["agg_two_filters"] = (3, lambda h: ["call", ["call", ["fn", "Count", [["add", A_, h[0]]]], "filter", [["gt", B_, h[1]]]], "filter", [["lt", B_, h[2]]]])
    t["agg_distinct_filter"] = (2, lambda h: ["call", ["call", ["fn", "Count", [["add", A_, h[0]]]], "distinct", []], "filter", [["gt", B_, h[1]]]])
    t["window"] = (3, lambda h: ["call", ["call", ["an", "Sum", [["add", A_, h[0]]]], "over", [["add", B_, h[1]]]], "orderby", [["sub", B_, h[2]]]])
    t["window_filter"] = (4, lambda h: ["call", ["call", ["call", ["an", "Sum", [["add", A_, h[0]]]], "filter", [["gt", B_, h[1]]]], "over", [["add", B_, h[2]]]], "orderby", [["sub", B_, h[3]]]])
    t["array_values"] = (2, lambda h: ["array", [h[0][1], h[1][1]]])
    t["array_mixed"] = (2, lambda h: ["array", [["add", A_, h[0]], h[1][1]]])
    t["array_column"] = (1, lambda h: ["array", [A_, h[0][1]]])
    # an enum member (inline by contract) among the elements: the array cannot travel as one parameter with the member inside
    t["array_enum_member"] = (1, lambda h: ["array", [["enum", "Order", "asc"], h[0][1]]])
    t["arraynested_enum_member"] = (1, lambda h: ["array", [["pylist", [["enum", "Order", "desc"], h[0][1]]]]])
    t["arraynested_column"] = (2, lambda h: ["array", [["pylist", [h[0][1], A_]], ["pylist", [h[1][1], ["raw", 3]]]]])
    t["fnextract_value_part"] = (2, lambda h: ["fn", "Extract", [h[0], ["add", A_, h[1]]]])
    t["tuple_in"] = (4, lambda h: ["in", ["tuple", [["add", A_, h[0]], h[1]]], [["tuple", [h[2], h[3]]]]])
    # JSON operators: the right operand (key / index / document) is a value like any other
    t["json_get_index"] = (3, lambda h: ["eq", ["get_json_value", ["get_json_value", A_, h[0]], h[1]], h[2]])
    t["json_get_text_index"] = (2, lambda h: ["eq", ["get_text_value", A_, h[0]], h[1]])
    t["json_contains_doc"] = (1, lambda h: ["and", ["contains", A_, ["raw", {"k": 7301}]], ["eq", B_, h[0]]])
    t["json_has_keys"] = (1, lambda h: ["and", ["has_any_keys", A_, ["raw", ["k1", "k2"]]], ["eq", B_, h[0]]])
    t["json_path"] = (1, lambda h: ["eq", ["get_path_text_value", A_, ["raw", "{a,b}"]], h[0]])
    t["json_path_json"] = (1, lambda h: ["eq", ["get_path_json_value", A_, ["raw", "{a,b}"]], h[0]])
    t["json_contained_by_doc"] = (1, lambda h: ["and", ["contained_by", A_, ["raw", {"k": 7302}]], ["eq", B_, h[0]]])
    t["json_has_all_keys"] = (1, lambda h: ["and", ["has_keys", A_, ["raw", ["k1", "k2"]]], ["eq", B_, h[0]]])
    t["json_has_key"] = (2, lambda h: ["and", ["has_key", A_, h[0]], ["eq", B_, h[1]]])
    t["not"] = (2, lambda h: ["not", ["eq", ["add", A_, h[0]], h[1]]])
    t["neg"] = (2, lambda h: ["gt", ["neg", ["add", A_, h[0]]], h[1]])
    t["isnull"] = (2, lambda h: ["isnull", ["add", ["add", A_, h[0]], h[1]]])
    t["and_or"] = (4, lambda h: ["or", ["and", ["eq", A_, h[0]], ["eq", B_, h[1]]], ["and", ["eq", A_, h[2]], ["eq", B_, h[3]]]])
    t["scalar_subquery_cmp"] = (2, lambda h: ["gt", ["add", A_, h[0]], _subq(h[1])])
    t["nested_fn_case"] = (4, lambda h: ["fn", "Coalesce", [["case", [[["eq", A_, h[0]], h[1]]], h[2]], h[3]]])
    return t


SLOT_CLAUSES = ["select", "where", "having", "join_on", "orderby", "set_value", "insert_value"]


def slot_program(cls, name, clause, negative=False):
    n, make = slot_templates()[name]
    holes = [["vw", ["raw", (-1 if negative else 1) * (7001 + 13 * i)]] for i in range(n)]
    e = make(holes)
    crit = prog_is_criterion(e)
    src = {"T": ["tbl", "t1", None, None], "U": ["tbl", "t2", None, None]}
    extra = ["vw", ["raw", 6001]]
    if clause == "select":
        steps = [["from_", [["src", "T"]]], ["select", [["as", e, "x"], ["add", B_, extra]]]]
    elif clause == "where":
        steps = [["from_", [["src", "T"]]], ["select", [["add", B_, extra]]], ["where", [e if crit else ["gt", e, ["raw", 6002]]]]]
    elif clause == "having":
        steps = [["from_", [["src", "T"]]], ["select", [A_]], ["groupby", [A_]], ["having", [e if crit else ["gt", e, ["raw", 6002]]]]]
    elif clause == "join_on":
        steps = [["from_", [["src", "T"]]], ["join", [["src", "U"], ["enum", "JoinType", "left"]], {}, ["on", [["and", ["eq", A_, ["col", "U", "a"]], e if crit else ["gt", e, ["raw", 6002]]]]]], ["select", [A_]]]
    elif clause == "orderby":
        steps = [["from_", [["src", "T"]]], ["select", [A_]], ["where", [["gt", B_, ["raw", 6002]]]], ["orderby", [e]], ["limit", [["raw", 6003]]]]
    elif clause == "set_value":
        steps = [["update", [["src", "T"]]], ["set", [B_, e]], ["where", [["eq", A_, ["raw", 6002]]]]]
    elif clause == "insert_value":
        steps = [["into", [["src", "T"]]], ["columns", [["py", "a"], ["py", "b"]]], ["insert", [["raw", 6002], e]]]
    else:
        raise HarnessError(clause)
    return {"cls": cls, "sources": src, "steps": steps, "kind": "slots:" + name.split("_")[0]}


def prog_is_criterion(e):
    return e[0] in ("eq", "ne", "gt", "ge", "lt", "le", "in", "notin", "between", "like", "not", "isnull", "and", "or")


def positional_programs(cls):
    """ORDER BY / GROUP BY by column position: the integer names a column, it is not a value (name -> program)"""
    src = {"T": ["tbl", "t1", None, None], "U": ["tbl", "t2", None, None]}
    sel = [["from_", [["src", "T"]]], ["select", [A_, B_]], ["where", [["gt", A_, ["raw", 6001]]]]]
    other = {"cls": "inherit", "sources": {}, "steps": [["from_", [["src", "U"]]], ["select", [["col", "U", "a"], ["col", "U", "b"]]]]}
    return {
        "orderby_position": {"cls": cls, "sources": src, "kind": "positional", "steps": sel + [["orderby", [["py", 2]], {"order": ["enum", "Order", "desc"]}], ["limit", [["raw", 6003]]]]},
        "groupby_position": {"cls": cls, "sources": src, "kind": "positional", "steps": [["from_", [["src", "T"]]], ["select", [B_, ["fn", "Sum", [A_]]]], ["where", [["gt", A_, ["raw", 6001]]]], ["groupby", [["py", 1]]]]},
        "setop_orderby_position": {"cls": cls, "sources": src, "kind": "positional", "steps": sel + [["union_all", [["q", other]]], ["orderby", [["py", 2]]]]},
    }


def slot_cases():
    for name in sorted(slot_templates()):
        for clause in SLOT_CLAUSES:
            if name.startswith(("agg_", "window")) and clause in ("where", "join_on", "set_value", "insert_value"):
                continue  # aggregates / window functions do not stand there
            if name.startswith("window") and clause == "having":
                continue
            if name.startswith("array") and clause not in ("select", "insert_value", "set_value"):
                continue
            for cls in CTXS:
                if name.startswith("json_") and cls != "postgresql":
                    continue  # -> ->> #>> @> ?| are PostgreSQL's operators; elsewhere they are not SQL (MySQL reads # as a comment)
                yield {"family": "slots", "name": name, "clause": clause, "cls": cls}
                # the same with negative numbers in every slot (the sign is where the inline and the parameterised form can part)
                yield {"family": "slots", "name": name, "clause": clause, "cls": cls, "negative": True}


def clause_of(p, s_par):
    return p.get("kind", "?")


def check_case(case):
    if case.get("family") == "positional":
        res = check_program(positional_programs(case["cls"])[case["name"]])
        return [(mksig("any", "positional", case["name"], k), d) for k, d in res if k != "__build__"]
    if case.get("family") == "slots":
        p = slot_program(case["cls"], case["name"], case["clause"], case.get("negative", False))
        res = check_program(p)
        return [(mksig(case["cls"] if k in ("style", "numbering") or k.startswith("raises") else "any", "slots", case["name"].split("_")[0], k), d) for k, d in res if k != "__build__"]
    res = check_program(case)
    return [(mksig(case["cls"] if k in ("style", "numbering") or k.startswith("raises") else "any", case.get("kind", "?"), k), d) for k, d in res if k != "__build__"]


def valid_case(case):
    try:
        if case.get("family") == "positional":
            return case["cls"] in CTXS and case["name"] in positional_programs(case["cls"])
        if case.get("family") == "slots":
            return case["name"] in slot_templates() and case["clause"] in SLOT_CLAUSES and case["cls"] in CTXS
        prog.build_program(case)
        return case["cls"] in CTXS
    except (Exception, HarnessError):
        return False


def nontrivial(p, nvals):
    txt = json.dumps(p["steps"])
    nested = '"q"' in txt
    return nvals >= 2 or nested or (p["cls"] in ("mssql", "oracle") and ('"limit"' in txt or '"offset"' in txt))


def shards(tier, sd):
    n = 8 if tier == "quick" else 32
    return [(tier, sd * 1000 + k) for k in range(n)] + [("slots", 0)]


def run_shard(shard):
    tier, sd = shard
    col = Collector()
    if tier == "slots":
        for case in slot_cases():
            p = slot_program(case["cls"], case["name"], case["clause"], case.get("negative", False))
            res = check_program(p)
            if res and res[0][0] == "__build__":
                col.count("slots_build_raised:%s:%s" % (case["name"], res[0][1]))
                col.evaluations += 1
                continue
            col.case(case, True, classes=("slots", "clause:" + case["clause"]))
            for k, d in res:
                col.violation(mksig(case["cls"] if k in ("style", "numbering") or k.startswith("raises") else "any", "slots", case["name"].split("_")[0], k), case, d)
        for cls in CTXS:
            for name, p in positional_programs(cls).items():
                case = {"family": "positional", "cls": cls, "name": name}
                res = check_program(p)
                col.case(case, True, classes=("positional",))
                for k, d in res:
                    if k != "__build__":
                        col.violation(mksig("any", "positional", name, k), case, d)
        col.notes["slot_templates"] = len(slot_templates())
        return col
    nex = 400 if tier == "quick" else 6000

    @seed(sd)
    @settings(max_examples=nex, database=None, deadline=None, suppress_health_check=list(HealthCheck), report_multiple_bugs=False)
    @given(gen.statement(value_kinds=gen.VALUE_KINDS))
    def prop(p):
        res = check_program(p)
        if res and res[0][0] == "__build__":
            col.count("build_raised:" + res[0][1])
            return
        nv = sum(1 for k, _ in p.get("markers", []) if k not in EXEMPT)
        sample = None
        if len(col.samples) < col.MAX_SAMPLES and nontrivial(p, nv):
            try:
                sample = {"cls": p["cls"], "steps": p["steps"], "parameterised": list(map(str, prog.render(prog.build_program(p), p["cls"], True)))}
            except Exception:
                pass
        col.case(p, nontrivial(p, nv), classes=("cls:" + p["cls"], "kind:" + p.get("kind", "?")) + tuple("value:" + k for k, _ in p.get("markers", [])[:6]), sample=sample)
        for k, d in res:
            col.violation(mksig(p["cls"] if k in ("style", "numbering") or k.startswith("raises") else "any", p.get("kind", "?"), k), p, d)

    prop()
    return col
