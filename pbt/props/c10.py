"""C10 - A subquery renders the same wherever it is embedded.

Domain   inner SELECTs from the structured generator, biased to carry aliased terms in WHERE / GROUP BY / HAVING / ORDER BY / ON, to be
         nested themselves, to be set operations and to paginate, carrying values; embedded as FROM source, JOIN item, IN container,
         comparison operand, select-list item, CTE body, INSERT..SELECT source, CREATE TABLE .. AS source and set-operation operand
         (left and right); six classes; inline and parameterised.
Oracle   reference lexer: the stand-alone token stream of the inner query (same class context; placeholders compared by kind and
         renumbered) occurs in the outer statement as a contiguous run, bracketed exactly where the position requires brackets,
         followed by its alias only at FROM / JOIN / select-list positions.
"""
from __future__ import annotations

import copy
import json

from hypothesis import HealthCheck, given, seed, settings, strategies as st

from pbt import gen, lex, prog
from pbt.core import Collector, HarnessError, mksig

ID = "C10"
RULE = ("inner queries (joins, aliased terms outside the select list, GROUP BY/HAVING/ORDER BY, pagination, nested subqueries, set operations, values) x "
        "17 embedding positions (FROM, JOIN, IN / NOT IN, comparison, select list, CTE, INSERT..SELECT, CREATE..AS, set-operation operands, HAVING comparison, IN under a joined outer query / in a JOIN ON, IN / comparison as select-list items) x 6 classes x 4 rendering entry points. Non-trivial = the inner query has an aliased term outside its select list, or is "
        "itself nested, or is a set operation; distinct = distinct (inner program, position, class, mode).")
ASSUMPTIONS = [
    "brackets are required around the inner query at every position except INSERT..SELECT and MySQL / SQLite set-operation operands (their grammars have no bracketed operands)",
    "the automatic alias sqN is assigned at embedding time; the stand-alone rendering never prints it",
    "the stand-alone rendering is taken under the same class context as the outer statement",
]

CTXS = prog.CLS_NAMES
POSITIONS = ["from", "join", "in", "not_in", "cmp", "select", "cte", "insert_select", "create_as", "setop_left", "setop_right", "having_cmp", "setop_in_from",
             "in_joined", "select_in", "select_cmp", "on_in", "returning_cmp", "returning_item", "returning_cmp_delete", "cte_update", "cte_delete", "cte_insert"]
# (function-argument and arithmetic-operand embeddings exist in outer_program for experiments; the property lists neither, so they are not checked)
OUT = {"OT": ["tbl", "outer_t", None, None], "OU": ["tbl", "outer_u", None, None]}


@st.composite
def inner_program(draw):
    cls = draw(st.sampled_from(CTXS))
    g = gen.StmtGen(draw, "inherit", None, ("int", "str", "negint"), depth=draw(st.sampled_from([0, 1, 1, 2])), aliases=True, alias_cols=True)
    ncols = draw(st.sampled_from([1, 1, 2]))
    p = g.select(ncols=ncols, alias_terms=True)
    alias = draw(st.sampled_from([None, None, "ia"]))
    return {"cls": cls, "inner": p, "alias": alias, "ncols": ncols}


def outer_program(cls, pos, inner, alias):
    """program embedding ["q", inner] (optionally aliased) at the position"""
    src = dict(gen.SOURCES, **OUT)
    q = ["q", inner] if alias is None else ["call", ["q", inner], "as_", [["py", alias]]]
    OA = ["col", "OT", "oa"]
    if pos == "from":
        steps = [["from_", [q]], ["select", [["py", "*"]]]]
    elif pos == "join":
        steps = [["from_", [["src", "OT"]]], ["join", [q, ["enum", "JoinType", "left"]], {}, ["on", [["eq", OA, ["raw", 1]]]]], ["select", [OA]]]
    elif pos == "in":
        steps = [["from_", [["src", "OT"]]], ["select", [OA]], ["where", [["in", OA, q]]]]
    elif pos == "not_in":
        steps = [["from_", [["src", "OT"]]], ["select", [OA]], ["where", [["not", ["in", OA, q], "cls"]]]]
    elif pos == "in_joined":
        # the enclosing query qualifies its columns (join): nothing of that may reach the embedded query
        OB = ["col", "OU", "ob"]
        steps = [["from_", [["src", "OT"]]], ["join", [["src", "OU"], ["enum", "JoinType", "inner"]], {}, ["on", [["eq", OA, OB]]]], ["select", [OA]], ["where", [["in", OB, q]]]]
    elif pos == "on_in":
        OB = ["col", "OU", "ob"]
        steps = [["from_", [["src", "OT"]]], ["join", [["src", "OU"], ["enum", "JoinType", "inner"]], {}, ["on", [["and", ["eq", OA, OB], ["in", OB, q]]]]], ["select", [OA]]]
    elif pos == "select_in":
        steps = [["from_", [["src", "OT"]]], ["select", [OA, ["as", ["in", OA, q], "flag"]]]]
    elif pos == "select_cmp":
        steps = [["from_", [["src", "OT"]]], ["select", [["gt", OA, q]]]]
    elif pos in ("returning_cmp", "returning_item", "returning_cmp_delete"):
        # RETURNING (PostgreSQL) is a select list of its own: a comparison operand / an item there
        if cls != "postgresql":
            return None
        head = [["from_", [["src", "OT"]]], ["delete", []]] if pos == "returning_cmp_delete" else [["into", [["src", "OT"]]], ["insert", [["raw", 1]]]]
        steps = head + [["returning", [q if pos == "returning_item" else ["gt", OA, q]]]]
    elif pos == "select_fn":
        steps = [["from_", [["src", "OT"]]], ["select", [["as", ["fn", "Coalesce", [q, ["raw", 0]]], "cf"]]]]
    elif pos == "where_fn":
        steps = [["from_", [["src", "OT"]]], ["select", [OA]], ["where", [["eq", ["fn", "Coalesce", [q, ["raw", 0]]], OA]]]]
    elif pos == "where_arith":
        steps = [["from_", [["src", "OT"]]], ["select", [OA]], ["where", [["gt", ["add", OA, q], ["raw", 0]]]]]
    elif pos == "setop_in_from":
        other = {"cls": "inherit", "sources": {}, "steps": [["from_", [["src", "OT"]]], ["select", [OA]]]}
        so = dict(inner, steps=inner["steps"] + ([["as_", [["py", alias]]]] if alias else []) + [["union_all", [["q", other]]]])
        steps = [["from_", [["q", so]]], ["select", [["py", "*"]]]]
    elif pos == "cmp":
        steps = [["from_", [["src", "OT"]]], ["select", [OA]], ["where", [["gt", OA, q]]]]
    elif pos == "having_cmp":
        steps = [["from_", [["src", "OT"]]], ["select", [OA]], ["groupby", [OA]], ["having", [["gt", ["fn", "Max", [OA]], q]]]]
    elif pos == "select":
        steps = [["from_", [["src", "OT"]]], ["select", [OA, q]]]
    elif pos == "cte":
        steps = [["with_", [["q", inner], ["py", "cte9"]]], ["from_", [["cte", "cte9"]]], ["select", [["py", "*"]]]]
    elif pos == "cte_update":
        steps = [["with_", [["q", inner], ["py", "cte9"]]], ["update", [["src", "OT"]]], ["set", [OA, ["raw", 1]]]]
    elif pos == "cte_delete":
        steps = [["with_", [["q", inner], ["py", "cte9"]]], ["from_", [["src", "OT"]]], ["delete", []], ["where", [["eq", OA, ["raw", 1]]]]]
    elif pos == "cte_insert":
        steps = [["with_", [["q", inner], ["py", "cte9"]]], ["into", [["src", "OT"]]], ["insert", [["raw", 1]]]]
    elif pos == "insert_select":
        return None
    elif pos == "create_as":
        steps = [["create_table", [["py", "nt"]]], ["as_select", [["q", inner]]]]
    elif pos == "setop_left":
        return None
    elif pos == "setop_right":
        return None
    else:
        raise HarnessError(pos)
    return {"cls": cls, "sources": src, "steps": steps}


def keys(tokens):
    return [("param", "?") if t.kind == "param" else t.key for t in tokens]


def find_sub(hay, needle):
    out = []
    n = len(needle)
    if n == 0:
        return out
    for i in range(len(hay) - n + 1):
        if hay[i:i + n] == needle:
            out.append(i)
    return out


def render(obj, cls, par):
    if par == "str":
        # the way users render: str(q) with the builder's own default context
        return str(obj)
    if par == "noarg":
        # q.get_sql() without a context (set operations and DDL builders have no such form: str() is their default rendering)
        try:
            return obj.get_sql()
        except TypeError:
            return str(obj)
    if par:
        return prog.render(obj, cls, True)[0]
    return obj.get_sql(prog.sql_context(cls))


def first_diff_clause(inner_toks, outer_toks):
    """name of the inner clause where the embedded rendering first departs from the stand-alone one (best effort)"""
    ik = keys(inner_toks)
    ok = keys(outer_toks)
    # longest prefix of the inner stream found somewhere in the outer stream
    best = 0
    for start in range(len(ok)):
        if ok[start] != ik[0]:
            continue
        j = 0
        while j < len(ik) and start + j < len(ok) and ok[start + j] == ik[j]:
            j += 1
        best = max(best, j)
    clause = "SELECT"
    depth = 0
    for t in inner_toks[:best + 1]:
        if t.kind == "punct" and t.text == "(":
            depth += 1
        elif t.kind == "punct" and t.text == ")":
            depth -= 1
        elif t.kind == "word" and t.value in ("FROM", "WHERE", "GROUP", "HAVING", "ORDER", "LIMIT", "OFFSET", "JOIN", "ON", "UNION", "INTERSECT", "EXCEPT", "FETCH", "WITH"):
            clause = t.value if depth == 0 else "nested:" + t.value
    return clause


def check(case, pos, par):
    cls = case["cls"]
    inner = case["inner"]
    src = dict(gen.SOURCES, **OUT)
    try:
        alone = prog.build_program(dict(inner, cls=cls, sources=src))
        s_alone = render(alone, cls, par)
    except Exception as e:
        return [("__build__", type(e).__name__)]
    if not s_alone:
        return [("__build__", "empty")]
    ta = lex.lex(s_alone, cls)
    is_setop = type(alone).__name__ == "_SetOperation"
    if pos == "insert_select":
        if is_setop:
            return [("__na__", "")]
        p = dict(inner, cls=cls, sources=src)
        p["steps"] = [["into", [["src", "OT"]]]] + [s for s in inner["steps"] if s[0] != "with_"]
        alone2 = prog.build_program(dict(inner, cls=cls, sources=src, steps=[s for s in inner["steps"] if s[0] != "with_"]))
        try:
            s_out = render(prog.build_program(p), cls, par)
            s_in = render(alone2, cls, par)
        except Exception as e:
            return [("__build__", type(e).__name__)]
        to, ti = lex.lex(s_out, cls), lex.lex(s_in, cls)
        head = [("word", "INSERT"), ("word", "INTO"), ("qid", "outer_t")]
        if keys(to) != head + keys(ti):
            return [(mksig("insert_select", first_diff_clause(ti, to)), "INSERT..SELECT renders %r, the SELECT alone %r" % (s_out, s_in))]
        return []
    if pos in ("setop_left", "setop_right"):
        if is_setop:
            return [("__na__", "")]
        other = {"cls": "inherit", "sources": {}, "steps": [["from_", [["src", "OT"]]], ["select", [["col", "OT", "oa"]] * case["ncols"]]]}
        if pos == "setop_left":
            p = dict(inner, cls=cls, sources=src)
            p["steps"] = inner["steps"] + [["union_all", [["q", other]]]]
        else:
            p = {"cls": cls, "sources": src, "steps": other["steps"] + [["union_all", [["q", inner]]]]}
        need_parens = cls not in ("mysql", "sqlite")
        alias = None
    else:
        if pos == "setop_in_from" and (is_setop or case["ncols"] != 1):
            return [("__na__", "")]
        p = outer_program(cls, pos, inner, case["alias"])
        if p is None:
            return [("__na__", "")]
        need_parens = True if pos != "setop_in_from" else cls not in ("mysql", "sqlite")
        alias = case["alias"] if pos != "setop_in_from" else None  # in a set operation the operand's alias defines nothing
    try:
        outer = prog.build_program(p)
        s_out = render(outer, cls, par)
    except Exception as e:
        return [("__build__", type(e).__name__)]
    to = lex.lex(s_out, cls)
    ko, ka = keys(to), keys(ta)
    hits = find_sub(ko, ka)
    if not hits and pos.startswith("cte_") and not (to and to[0].kind == "word" and to[0].value == "WITH"):
        return [(mksig(pos, "with_clause_dropped"), "the statement has lost its WITH clause altogether: %r" % s_out)]
    if not hits:
        return [(mksig(pos, "differs", first_diff_clause(ta, to)), "embedded at %s the inner query is not rendered as it is stand-alone: outer %r ; stand-alone %r" % (pos, s_out, s_alone))]
    ok = False
    why = ""
    for i in hits:
        j = i + len(ka)
        before = to[i - 1] if i > 0 else None
        after = to[j] if j < len(to) else None
        has_open = before is not None and before.kind == "punct" and before.text == "("
        has_close = after is not None and after.kind == "punct" and after.text == ")"
        if need_parens and not (has_open and has_close):
            why = "brackets"
            continue
        if not need_parens and pos.startswith("setop") and (has_open and has_close):
            pass
        k = j + (1 if has_close and has_open else 0)
        nxt = to[k] if k < len(to) else None
        nxt_is_alias = nxt is not None and (nxt.kind == "qid" and (nxt.value == alias or (nxt.value.startswith("sq") and nxt.value[2:].isdigit())))
        if nxt is not None and nxt.kind == "word" and nxt.value == "AS" and pos in ("from", "join", "select"):
            nxt2 = to[k + 1] if k + 1 < len(to) else None
            nxt_is_alias = nxt2 is not None and nxt2.kind == "qid"
        if pos in ("from", "join"):
            # an explicit alias must follow; without one the automatic sqN may follow (set operations in JOIN get none)
            if alias is not None and not nxt_is_alias:
                why = "alias_missing"
                continue
        elif pos in ("select", "returning_item"):
            if alias is not None and not nxt_is_alias:
                why = "alias_missing"
                continue
            if alias is None and nxt is not None and nxt.kind == "qid":
                why = "alias_leaked"
                continue
        elif pos == "setop_in_from":
            # the operand of the nested set operation must not be followed by any alias of its own
            if nxt is not None and nxt.kind == "qid":
                why = "alias_leaked"
                continue
        else:
            if pos == "select_in" and nxt is not None and nxt.kind == "qid" and nxt.value == "flag":
                nxt = None  # the alias of the enclosing IN predicate, not of the embedded query
            if nxt is not None and nxt.kind == "qid" and not (pos == "create_as"):
                why = "alias_leaked"
                continue
        ok = True
        break
    if not ok:
        return [(mksig(pos, why), "at %s: outer %r ; stand-alone %r" % (pos, s_out, s_alone))]
    return []


def nontrivial(case):
    txt = json.dumps(case["inner"]["steps"])
    sel_end = txt.find('"where"')
    rest = txt[sel_end:] if sel_end >= 0 else ""
    return '"as"' in rest or '"q"' in txt or any(('"%s"' % op) in txt for op in ("union", "union_all", "intersect", "except_of"))


def check_case(case):
    out = []
    res = check(case, case["pos"], case["par"])
    return [(s, d) for s, d in res if not s.startswith("__")]


def valid_case(case):
    try:
        prog.build_program(dict(case["inner"], cls=case["cls"], sources=dict(gen.SOURCES, **OUT)))
        if not any(s[0] == "from_" for s in case["inner"]["steps"]):
            return False  # the generator always gives the inner query a FROM clause
        return case["pos"] in POSITIONS and case["cls"] in CTXS
    except (Exception, HarnessError):
        return False


def fixed_inners():
    """inner queries the random generator rarely draws: boolean expressions in ORDER BY / GROUP BY of queries and set operations (bracketing
    flags of the embedding position must not reach them), CTE inside, pagination on a set operation"""
    T, U = ["col", "T", "a"], ["col", "U", "a"]
    disj = ["or", ["eq", T, ["raw", 1]], ["eq", T, ["raw", 2]]]
    sel_t = [["from_", [["src", "T"]]], ["select", [T]]]
    sel_u = {"cls": "inherit", "sources": {}, "steps": [["from_", [["src", "U"]]], ["select", [U]]]}
    out = {
        "setop_orderby_disjunction": sel_t + [["union_all", [["q", sel_u]]], ["orderby", [disj]]],
        "setop_orderby_conjunction_limit": sel_t + [["union", [["q", sel_u]]], ["orderby", [["and", ["gt", T, ["raw", 1]], ["lt", T, ["raw", 9]]]]], ["limit", [["raw", 3]]]],
        "select_orderby_disjunction": sel_t + [["where", [["gt", T, ["raw", 0]]]], ["orderby", [disj]]],
        "select_groupby_disjunction": [["from_", [["src", "T"]]], ["select", [["fn", "Count", [["py", "*"]]]]], ["groupby", [disj]], ["having", [["or", ["gt", ["fn", "Count", [["py", "*"]]], ["raw", 1]], ["eq", ["fn", "Max", [T]], ["raw", 5]]]]]],
        "select_item_disjunction": [["from_", [["src", "T"]]], ["select", [disj]]],
        # a scalar subquery as ORDER BY term of a set operation / of a query: bracketed stand-alone as well as embedded
        "setop_orderby_scalar_subquery": sel_t + [["union_all", [["q", sel_u]]], ["orderby", [["subq", {"cls": "inherit", "sources": {}, "steps": [["from_", [["src", "U"]]], ["select", [["fn", "Max", [U]]]]]}]]]],
        "select_orderby_scalar_subquery": sel_t + [["orderby", [["subq", {"cls": "inherit", "sources": {}, "steps": [["from_", [["src", "U"]]], ["select", [["fn", "Max", [U]]]]]}]]]],
    }
    for name, steps in out.items():
        for cls in CTXS:
            for alias in (None, "ia"):
                yield {"cls": cls, "inner": {"cls": "inherit", "sources": {}, "steps": steps}, "alias": alias, "ncols": 1, "fixed": name}


def shards(tier, sd):
    n = 8 if tier == "quick" else 32
    return [(tier, sd * 1000 + k) for k in range(n)] + [("fixed", 0)]


def run_shard(shard):
    tier, sd = shard
    col = Collector()
    if tier == "fixed":
        for case in fixed_inners():
            for pos in POSITIONS:
                for par in (False, True, "str", "noarg"):
                    c = dict(case, pos=pos, par=par)
                    res = check(case, pos, par)
                    if res and res[0][0].startswith("__"):
                        col.count("skip:%s:%s" % (res[0][0].strip("_"), pos))
                        continue
                    col.case(c, True, classes=("pos:" + pos, "cls:" + case["cls"], "fixed:" + case["fixed"]))
                    for sig, detail in res:
                        col.violation(sig, c, detail)
        return col
    nex = 150 if tier == "quick" else 2500

    @seed(sd)
    @settings(max_examples=nex, database=None, deadline=None, suppress_health_check=list(HealthCheck), report_multiple_bugs=False)
    @given(inner_program())
    def prop(case):
        nt = nontrivial(case)
        for pos in POSITIONS:
            for par in (False, True, "str", "noarg"):
                c = dict(case, pos=pos, par=par)
                res = check(case, pos, par)
                if res and res[0][0].startswith("__"):
                    col.count("skip:%s:%s" % (res[0][0].strip("_"), pos))
                    continue
                col.case(c, nt, classes=("pos:" + pos, "cls:" + case["cls"]))
                for sig, detail in res:
                    col.violation(sig, c, detail)

    prop()
    return col
