"""C11 - Column references are qualified exactly when needed and always by the right name.

Domain   statements of every kind over source shapes {plain, aliased, schema-qualified table, subquery (explicit / automatic alias), CTE
         reference; 1..3 sources; self-joins with explicit aliases; several FROM items; UPDATE..FROM; WHERE on a table outside the
         sources; correlated subqueries} with a uniquely named field at every clause that can hold one (select, ON, USING, WHERE, GROUP BY,
         HAVING, ORDER BY, SET target / value, INSERT columns, RETURNING, ON CONFLICT target / update / where, function and CASE operands).
Oracle   an independent qualification model over the program data: a field is qualified iff it has a source and (the source is
         aliased or the statement is multi-source) and the position is not a must-stay-bare one; the qualifier is the alias if there
         is one, else the table name.  The rendered token stream is searched for each marker field and the two tokens before it are
         compared with the model.  SQLite-class SELECTs are additionally prepared against a schema in which every table has the
         same column names (unqualified references would be ambiguous, wrong qualifiers unknown).
"""
from __future__ import annotations

import json
import sqlite3

from hypothesis import HealthCheck, given, seed, settings, strategies as st

from pbt import lex, prog
from pbt.core import Collector, HarnessError, mksig

ID = "C11"
RULE = ("generated statements (select / insert / insert..select / upsert / update / update..from / update..join / delete) over 1-3 sources of every shape with a "
        "uniquely named marker field in every clause (GROUP BY / ORDER BY also by column name string, clause calls before or after the joins, correlated subqueries linking one column name of two sources); six classes. Non-trivial = >= 2 sources or an aliased source, and fields in >= 3 different clauses; "
        "distinct = distinct program. INSERT..SELECT..ON CONFLICT over one plain source as well as over a join (the handler may take a value from the SELECT source).")
ASSUMPTIONS = [
    "multi-source = joins, several FROM items, a subquery in FROM, UPDATE..FROM, or a WHERE clause mentioning a table outside the statement's sources (property statement)",
    "must-stay-bare positions: INSERT column list, SET target, ON CONFLICT target, USING, EXCLUDED.<col>",
    "inside DO UPDATE SET values and the upsert WHERE the library qualifies on purpose (EXCLUDED is a second row source): either form is accepted there, the qualifier must be right",
    "sources are added before the clauses that use them (call order is C13's business)",
    "a reference to an aliased source may carry its alias in the must-stay-bare positions too (the property says 'always qualified'); a non-aliased one must be bare there",
]

CTXS = prog.CLS_NAMES
SUBP = {"cls": "inherit", "sources": {"IQ": ["tbl", "tq", None, None]}, "steps": [["from_", [["src", "IQ"]]], ["select", [["col", "IQ", "k1"], ["col", "IQ", "k2"]]]]}
SUBP2 = {"cls": "inherit", "sources": {"IQ2": ["tbl", "tq2", None, None]}, "steps": [["from_", [["src", "IQ2"]]], ["select", [["col", "IQ2", "k1"], ["col", "IQ2", "k2"]]]]}
SUBU = {"cls": "inherit", "sources": {"IQ": ["tbl", "tq", None, None], "IQ2": ["tbl", "tq2", None, None]},
        "steps": [["from_", [["src", "IQ"]]], ["select", [["col", "IQ", "k1"]]], ["union", [["q", {"cls": "inherit", "sources": {}, "steps": [["from_", [["src", "IQ2"]]], ["select", [["col", "IQ2", "k1"]]]]}]]]]}
AUTO = ("QN", "QN2", "UN", "QD")  # query-valued sources without an alias of their own: the statement names them sq0, sq1, ... in the order they are added
POOL = {
    "P": ["tbl", "tp", None, None], "B": ["tbl", "tb", None, None], "D": ["tbl", "td", None, None],
    "A": ["tbl", "ta", None, "xa"], "P2": ["tbl", "tp", None, "p2"], "S": ["tbl", "ts", "sc", None], "SA": ["tbl", "ts", "sc", "sa"],
    "N": ["tbl", "tn", None, None], "NA": ["tbl", "tn", None, "na"],
    # further un-aliased objects for tables that may be in the statement already (self-joins; the same name in another schema): joined, they
    # are given the automatic alias <name>2, <name>3, ...
    "P3": ["tbl", "tp", None, None], "P4": ["tbl", "tp", None, None], "TS": ["tbl", "ts", None, None],
    "QX2": ["sub", SUBP, "tp2"],  # ... and a subquery that does
    "X2": ["tbl", "tb", None, "tp2"],  # another table that already answers to the name the first self-join of tp would get
    "Q": ["sub", SUBP, "qq"], "QN": ["sub", SUBP, None], "QN2": ["sub", SUBP2, None], "UN": ["sub", SUBU, None],
    # QU: a query object an earlier statement used already: it carries the alias sq0 from there
    "NW": ["tbl", "nw", None, None],  # the name of a MySQL row alias (INSERT .. AS nw), used like a table in the update list
    "QI": ["sub", SUBP2, None],  # the un-aliased source of a correlated subquery (named by the INNER statement)
    "QU": ["sub", SUBP2, None, {"preused": True}], "QD": ["sub", SUBP2, None, {"preused": True, "derived": True}], "C": ["cte", "cc"], "F": ["tbl", "tf", None, None],
}


DUPS = ("P3", "P4", "TS")


def auto_names(case):
    """names the statement gives by itself, in the order the from_ / join calls add the sources: un-aliased query sources -> sq0, sq1, ...;
    an un-aliased table JOINED under a name that already addresses another source -> <name>2, <name>3, ..."""
    out = {}
    nsq = 0
    used = set()
    present = []  # (table name, schema, alias) of the table sources so far: the library's notion of "the same table"
    for st_ in case["steps"]:
        if not (st_[0] in ("from_", "join", "update", "into") and st_[1] and st_[1][0][0] == "src"):
            continue
        key = st_[1][0][1]
        if key in out or key not in POOL:
            continue
        spec = POOL[key]
        if key == "QU":
            out[key] = "sq0"
            used.add("sq0")
        elif key in AUTO:
            while "sq%d" % nsq in used:
                nsq += 1  # a name that addresses a source already is not given again
            out[key] = "sq%d" % nsq
            nsq += 1
            used.add(out[key])
        elif spec[0] == "tbl":
            name = spec[3] or spec[1]
            ident = (spec[1], json.dumps(spec[2]), None)
            if st_[0] in ("join", "from_") and not spec[3] and ident in present:
                k = 2
                while "%s%d" % (name, k) in used:
                    k += 1
                name = out[key] = "%s%d" % (name, k)
            present.append((spec[1], json.dumps(spec[2]), spec[3] if key not in out else out[key]))
            used.add(name)
        else:
            used.add(spec[2] if spec[0] == "sub" else spec[1])
    return out


def qual_name(key, auto=None):
    if auto is not None and key in DUPS + ("QU",):
        return auto
    if key == "QU":
        return "sq0"
    auto = auto or "sq0"
    spec = POOL[key]
    if spec[0] == "tbl":
        return spec[3] or spec[1]
    if spec[0] == "sub":
        return spec[2] or auto
    return spec[1]


def is_aliased(key, case=None):
    if case is not None and key in DUPS and key in auto_names(case):
        return True
    spec = POOL[key]
    # a subquery source always carries an alias (explicit or sqN); a CTE reference is addressed by its name, which the library models as its alias
    return (spec[0] == "tbl" and bool(spec[3])) or spec[0] in ("sub", "cte")


def _mk_colitem(node, env):
    return env.src(node[1])[node[2]]


prog.EXTRA_NODES["colitem"] = _mk_colitem


class Builder:
    def __init__(self, draw, cls):
        self.draw = draw
        self.cls = cls
        self.n = 0
        self.occ = []  # [marker, source key, position]
        self.steps = []

    def f(self, key, pos):
        self.n += 1
        name = "f%d" % self.n
        self.occ.append([name, key, pos])
        if self.draw is not None and self.draw(st.integers(0, 3)) == 0:
            return ["colitem", key, name]  # the same column written source["name"] (Selectable.__getitem__ and its overrides)
        return ["col", key, name]

    def d(self, s):
        return self.draw(s)

    def fstr(self, key, pos):
        """a column given by name (str): the library resolves it against the first FROM item"""
        self.n += 1
        name = "f%d" % self.n
        self.occ.append([name, key, pos])
        return ["py", name]

    def corr(self, outer_key):
        """outer.x IN (SELECT n.k FROM n WHERE outer.m = n.m): ONE column name m on both sides of the correlation"""
        ik = self.d(st.sampled_from(["N", "N", "NA"]))
        if outer_key in AUTO + ("QU",) and self.d(st.booleans()):
            ik = "QI"  # both levels read from an un-aliased subquery: each statement names its own - the two names must differ
        self.n += 1
        m = "f%d" % self.n
        if self.d(st.integers(0, 3)) == 0:
            # the outer column stands in the inner SELECT LIST only: outer.x IN (SELECT n.k + outer.m FROM n)
            self.occ.append([m, outer_key, "corr_outer_sel"])
            sub = {"cls": "inherit", "sources": {}, "steps": [["from_", [["src", ik]]], ["select", [["add", self.f(ik, "corr_select"), ["col", outer_key, m]]]]]}
            return ["in", self.f(outer_key, "where"), ["q", sub]]
        swap = self.d(st.booleans())
        pair = [[m, outer_key, "corr_outer"], [m, ik, "corr_inner"]]
        self.occ += pair[::-1] if swap else pair
        link = ["eq", ["col", ik, m], ["col", outer_key, m]] if swap else ["eq", ["col", outer_key, m], ["col", ik, m]]
        sub = {"cls": "inherit", "sources": {}, "steps": [["from_", [["src", ik]]], ["select", [self.f(ik, "corr_select")]], ["where", [link]]]}
        return ["in", self.f(outer_key, "where"), ["q", sub]]

    def operand(self, keys, pos):
        k = self.d(st.sampled_from(keys))
        c = self.d(st.integers(0, 5))
        if c == 0:
            return ["fn", "Coalesce", [self.f(k, pos), ["raw", 0]]]
        if c == 1:
            return ["add", self.f(k, pos), ["raw", 1]]
        if c == 2:
            return ["case", [[["eq", self.f(k, pos), ["raw", 1]], self.f(self.d(st.sampled_from(keys)), pos)]], ["raw", 0]]
        return self.f(k, pos)

    def crit(self, keys, pos):
        a = self.operand(keys, pos)
        c = self.d(st.integers(0, 4))
        if c == 4:
            # a bit test against a column: the right operand of "&" is an operand like any other
            return ["call", self.f(self.d(st.sampled_from(keys)), pos), "bitwiseand", [self.f(self.d(st.sampled_from(keys)), pos)]]
        if c == 0:
            return ["eq", a, self.operand(keys, pos)]
        if c == 1:
            return ["and", ["gt", a, ["raw", 1]], ["isnull", self.f(self.d(st.sampled_from(keys)), pos)]]
        if c == 2:
            return ["in", a, [["raw", 1], ["raw", 2]]]
        return ["lt", a, ["raw", 5]]


@st.composite
def program(draw):
    cls = draw(st.sampled_from(CTXS))
    b = Builder(draw, cls)
    kind = draw(st.sampled_from(["select", "select", "select", "insert", "insert_select", "upsert", "upsert_select", "update", "update_from", "update_join", "delete"]))
    table_keys = ["P", "B", "A", "S", "SA", "P2", "D", "X2"]
    steps = b.steps
    multi = False
    foreign = False
    sources = []
    meta = {"kind": kind}
    if kind == "select":
        first = draw(st.sampled_from(table_keys + ["Q", "QN", "C", "UN", "QU"]))
        if first == "C":
            steps.append(["with_", [["q", SUBP], ["py", "cc"]]])
        steps.append(["from_", [["src", first]]])
        sources.append(first)
        if draw(st.integers(0, 4)) == 0:
            second = draw(st.sampled_from([k for k in table_keys if k != first and POOL[k][1] != POOL[first][1] or POOL[k][3]]))
            if second != first:
                steps.append(["from_", [["src", second]]])
                sources.append(second)
        for _ in range(draw(st.integers(0, 2))):
            cand = [k for k in table_keys + ["Q", "QN", "QN2", "UN", "QU", "QX2"] if k not in sources and (POOL[k][0] != "tbl" or POOL[k][3] or all(POOL[s][0] != "tbl" or POOL[s][1] != POOL[k][1] or POOL[s][3] for s in sources))]
            cand = [k for k in cand if not (POOL[k][0] == "tbl" and not POOL[k][3] and any(POOL[s][0] == "tbl" and POOL[s][1] == POOL[k][1] and not POOL[s][3] for s in sources))]
            # a further un-aliased object of a table whose name already addresses a source (self-join, same name in another schema)
            cand += [k for k in DUPS if k not in sources and any(POOL[s][0] == "tbl" and POOL[s][1] == POOL[k][1] and not POOL[s][3] for s in sources)] * 2
            if not cand:
                break
            kj = draw(st.sampled_from(cand))
            how = draw(st.sampled_from(["inner", "left", "right"]))
            if draw(st.integers(0, 4)) == 0:
                b.n += 1
                nm = "f%d" % b.n
                b.occ.append([nm, None, "using"])
                steps.append(["join", [["src", kj], ["enum", "JoinType", how]], {}, ["using", [["py", nm]]]])
            else:
                on = ["eq", b.f(draw(st.sampled_from(sources)), "on"), b.f(kj, "on")]
                if draw(st.booleans()):
                    on = ["and", on, ["gt", b.operand(sources + [kj], "on"), ["raw", 0]]]
                steps.append(["join", [["src", kj], ["enum", "JoinType", how]], {}, ["on", [on]]])
            sources.append(kj)
        sel = [b.operand(sources, "select") for _ in range(draw(st.integers(1, 3)))]
        if draw(st.booleans()):
            sel[0] = ["as", sel[0], "al1"]
        steps.append(["select", sel])
        if cls == "postgresql" and draw(st.integers(0, 2)) == 0:
            # DISTINCT ON holds column references like any other clause (by field object or by name)
            steps.append(["distinct_on", [b.fstr(sources[0], "distinct_on") if draw(st.booleans()) else b.f(draw(st.sampled_from(sources)), "distinct_on")]])
        if draw(st.integers(0, 9)) < 7:
            if draw(st.integers(0, 5)) == 0:
                foreign = True
                steps.append(["where", [["eq", b.f(draw(st.sampled_from(sources)), "where"), b.f("F", "where")]]])
            elif draw(st.integers(0, 5)) == 0:
                steps.append(["where", [b.corr(draw(st.sampled_from(sources)))]])
                meta["corr"] = True
            else:
                steps.append(["where", [b.crit(sources, "where")]])
        if draw(st.integers(0, 9)) < 4:
            steps.append(["groupby", [b.fstr(sources[0], "groupby") if draw(st.integers(0, 2)) == 0 else b.f(draw(st.sampled_from(sources)), "groupby")]])
            if draw(st.booleans()):
                steps.append(["having", [["gt", ["fn", "Sum", [b.f(draw(st.sampled_from(sources)), "having")]], ["raw", 1]]]])
        if draw(st.integers(0, 9)) < 4:
            steps.append(["orderby", [b.fstr(sources[0], "orderby") if draw(st.integers(0, 2)) == 0 else b.operand(sources, "orderby")]])
        if draw(st.integers(0, 9)) < 2 and cls != "mssql":
            steps.append(["limit", [["raw", 5]]])
        if any(x[0] == "join" for x in steps) and draw(st.integers(0, 2)) == 0:
            # the same calls with the filtering / grouping / ordering calls made BEFORE the joins: qualification is decided when rendering
            late = [x for x in steps if x[0] in ("where", "groupby", "having", "orderby")]
            rest = [x for x in steps if x[0] not in ("where", "groupby", "having", "orderby")]
            fj = next(i for i, x in enumerate(rest) if x[0] == "join")
            steps[:] = rest[:fj] + late + rest[fj:]
            meta["early_clauses"] = True
    elif kind in ("insert", "upsert"):
        tk = draw(st.sampled_from(["P", "B", "S", "A"]))
        sources.append(tk)
        steps.append(["into", [["src", tk]]])
        cols = []
        for _ in range(2):
            if draw(st.booleans()):
                cols.append(b.f(tk, "insert_columns"))
            else:
                b.n += 1
                nm = "f%d" % b.n
                b.occ.append([nm, tk, "insert_columns"])
                cols.append(["py", nm])
        steps.append(["columns", cols])
        steps.append(["insert", [["raw", 1], ["raw", 2]]])
        if kind == "upsert":
            steps.append(["on_conflict", [b.f(tk, "conflict_target")]])
            steps.append(["do_update", [b.f(tk, "conflict_set_target"), ["add", b.f(tk, "conflict_value"), ["raw", 1]]]])
            if draw(st.booleans()):
                b.n += 1
                nm = "f%d" % b.n
                b.occ.append([nm, tk, "conflict_excluded"])
                steps.append(["do_update", [["py", nm]]])
            if draw(st.booleans()):
                steps.append(["where", [["gt", b.f(tk, "conflict_where"), ["raw", 0]]]])
            if cls == "mysql" and draw(st.booleans()):
                # MySQL's row alias (INSERT .. AS nw): the new row is a source of its own in the update list, addressed by that name
                steps.append(["as_", [["py", "nw"]]])
                steps.append(["do_update", [b.f(tk, "conflict_set_target"), ["add", b.f(tk, "conflict_value"), b.f("NW", "conflict_value_source")]]])
        if cls == "postgresql" and draw(st.booleans()):
            steps.append(["returning", [b.f(tk, "returning")]])
    elif kind == "insert_select":
        tk = draw(st.sampled_from(["P", "B"]))
        fk = draw(st.sampled_from(["D", "A", "S"]))
        sources.append(fk)
        steps.append(["into", [["src", tk]]])
        steps.append(["columns", [b.f(tk, "insert_columns")]])
        steps.append(["from_", [["src", fk]]])
        steps.append(["select", [b.operand([fk], "select")]])
        if draw(st.booleans()):
            steps.append(["where", [b.crit([fk], "where")]])
        meta["select_sources"] = [fk]
    elif kind == "upsert_select":
        # INSERT .. SELECT over two joined sources .. ON CONFLICT: the select qualifies its columns, the conflict clause must not
        tk = draw(st.sampled_from(["P", "B"]))
        fk, gk = draw(st.sampled_from([("D", "SA"), ("A", "D"), ("S", "A"), ("D", None), ("S", None)]))
        steps.append(["into", [["src", tk]]])
        steps.append(["columns", [b.f(tk, "insert_columns"), b.f(tk, "insert_columns")]])
        steps.append(["from_", [["src", fk]]])
        if gk is None:
            # one plain source: the SELECT part is bare, but a value the conflict handler takes from that source needs its name
            sources += [fk]
            steps.append(["select", [b.f(fk, "select"), b.f(fk, "select")]])
            gk = fk
        else:
            sources += [fk, gk]
            steps.append(["join", [["src", gk], ["enum", "JoinType", "inner"]], {}, ["on", [["eq", b.f(fk, "on"), b.f(gk, "on")]]]])
            steps.append(["select", [b.f(fk, "select"), b.f(gk, "select")]])
        steps.append(["on_conflict", [b.f(tk, "conflict_target")]])
        # MySQL's ON DUPLICATE KEY UPDATE may take the new value from a source of the SELECT: that reference needs its source's name
        steps.append(["do_update", [b.f(tk, "conflict_set_target"), b.f(gk, "conflict_value_source") if cls == "mysql" else ["raw", 1]]])
        if draw(st.booleans()):
            b.n += 1
            nm = "f%d" % b.n
            b.occ.append([nm, tk, "conflict_excluded"])
            steps.append(["do_update", [["py", nm]]])
        meta["select_sources"] = sorted({fk, gk})
    elif kind in ("update", "update_from", "update_join"):
        tk = draw(st.sampled_from(["P", "B", "S", "A"]))
        sources.append(tk)
        steps.append(["update", [["src", tk]]])
        if kind == "update_from":
            fk = draw(st.sampled_from(["D", "SA", "Q"]))
            steps.append(["from_", [["src", fk]]])
            sources.append(fk)
        if kind == "update_join":
            # (P3: another un-aliased object of the target's own table - a self-join, which gets the automatic alias)
            fk = draw(st.sampled_from(["D", "SA"] + (["P3", "P3"] if tk == "P" else [])))
            steps.append(["join", [["src", fk], ["enum", "JoinType", "inner"]], {}, ["on", [["eq", b.f(tk, "on"), b.f(fk, "on")]]]])
            sources.append(fk)
        for _ in range(draw(st.integers(1, 2))):
            steps.append(["set", [b.f(tk, "set_target"), b.operand(sources, "set_value")]])
        if kind == "update_join" and cls == "mysql" and fk != "P3" and draw(st.booleans()):
            # MySQL's multi-table UPDATE may assign to a column of the JOINED table: that target needs its source's name
            steps.append(["set", [b.f(fk, "set_target_joined"), ["raw", 1]]])
        if draw(st.integers(0, 9)) < 8:
            steps.append(["where", [b.crit(sources, "where")]])
        if cls == "mysql" and draw(st.booleans()):
            steps.append(["orderby", [b.f(tk, "update_orderby")]])
            steps.append(["limit", [["raw", 3]]])
        if cls == "postgresql" and draw(st.booleans()):
            steps.append(["returning", [b.f(tk, "returning")]])
    else:
        tk = draw(st.sampled_from(["P", "S", "A"]))
        sources.append(tk)
        steps += [["from_", [["src", tk]]], ["delete", []]]
        if draw(st.integers(0, 3)) == 0:
            # a WHERE that names a table outside the statement: every reference is qualified then - RETURNING included
            foreign = True
            steps.append(["where", [["eq", b.f(tk, "where"), b.f("F", "where")]]])
        elif draw(st.booleans()):
            steps.append(["where", [b.crit([tk], "where")]])
        if cls == "postgresql" and draw(st.booleans()):
            steps.append(["returning", [b.f(tk, "returning")]])
    return {"cls": cls, "steps": steps, "occ": b.occ, "sources": sources, "foreign": foreign, "kind": kind, "corr": bool(meta.get("corr")), "early": bool(meta.get("early_clauses"))}


# ---- enumerated family: combinations of sources whose names interact (always tested, whatever the random draws do) -----------------
COMBOS = [("P", "from:P3"), ("P", "from:P3", "P4"), ("D", "from:P", "from:P3"), ("QU", "QD"), ("QD", "QN"), ("D", "QD"), ("P", "P3"), ("P", "P3", "P4"), ("P", "X2", "P3"), ("P", "QX2", "P3"), ("D", "P", "P3"), ("S", "TS"), ("QU", "QN2"), ("QN", "QU"), ("UN", "QN"), ("D", "UN", "QN2"),
          ("P2", "P", "P3"), ("A", "SA", "Q"), ("C", "D")]


def combo_case(cls, combo):
    b = Builder(None, cls)
    steps = b.steps
    first = combo[0]
    if first == "C":
        steps.append(["with_", [["q", SUBP], ["py", "cc"]]])
    steps.append(["from_", [["src", first]]])
    seen = [first]
    for k in combo[1:]:
        if k.startswith("from:"):
            # a further FROM item instead of a join (several FROM items are sources like any other)
            k = k[5:]
            steps.append(["from_", [["src", k]]])
        else:
            steps.append(["join", [["src", k], ["enum", "JoinType", "inner"]], {}, ["on", [["eq", b.f(seen[-1], "on"), b.f(k, "on")]]]])
        seen.append(k)
    steps.append(["select", [b.f(k, "select") for k in seen]])
    steps.append(["where", [["and", ["gt", b.f(seen[0], "where"), ["raw", 1]], ["isnull", b.f(seen[-1], "where")]]]])
    steps.append(["groupby", [b.f(seen[-1], "groupby")]])
    steps.append(["orderby", [b.f(seen[0], "orderby")]])
    return {"cls": cls, "steps": steps, "occ": b.occ, "sources": seen, "foreign": False, "kind": "select", "corr": False, "early": False, "combo": list(combo)}


BARE_POS = ("insert_columns", "set_target", "conflict_target", "conflict_set_target", "using", "conflict_excluded")
EITHER_POS = ("conflict_value", "conflict_where")


def multi_source(case):
    srcs = case["sources"]
    kind = case["kind"]
    if kind == "insert_select":
        return False
    if kind == "upsert_select":
        return len(srcs) > 1  # the SELECT part usually has two sources
    if kind in ("insert", "upsert", "delete", "update"):
        return bool(case.get("foreign"))
    if kind in ("update_from", "update_join"):
        return True
    return len(srcs) > 1 or POOL[srcs[0]][0] == "sub" or bool(case.get("foreign"))


def expected(case, key, pos):
    """-> None (bare) | qualifier name | ('either', name)"""
    if key is None:
        return None
    name = qual_name(key, auto_names(case).get(key))
    if pos in BARE_POS:
        # SQL wants these bare; the property lets a reference to an aliased source carry its alias everywhere
        return ("either", name) if is_aliased(key, case) else None
    if pos in EITHER_POS:
        return ("either", name)
    if pos == "conflict_value_source":
        return name  # target row and source row are both in scope there: a bare column means the target's
    if pos in ("corr_outer", "corr_inner", "corr_select", "corr_outer_sel"):
        return name  # the inner query refers to a table of the outer one: both of its namespaces are needed
    if is_aliased(key, case) or multi_source(case):
        return name
    return None


def qualifier_before(tokens, i):
    if i >= 2 and tokens[i - 1].kind == "punct" and tokens[i - 1].text == "." and tokens[i - 2].kind in ("qid", "word"):
        return tokens[i - 2].value
    return None


def check_program(case):
    cls = case["cls"]
    p = {"cls": cls, "sources": POOL, "steps": case["steps"]}
    try:
        q = prog.build_program(p)
        sql = q.get_sql(prog.sql_context(cls))
    except Exception as e:
        return [("__build__", type(e).__name__ + ":" + str(e)[:80])]
    toks = lex.lex(sql, cls)
    out = []
    seen = set()
    # every source of the statement is addressed by a name of its own
    names = {}
    an = auto_names(case)
    for key in case["sources"]:
        names.setdefault(qual_name(key, an.get(key)), []).append(key)
    clash = sorted(k for ks in names.values() if len(ks) > 1 for k in ks)
    if clash and any(o[1] in clash for o in case["occ"]):
        # (same table name in two schemas: both are addressed as "name" - the references cannot be told apart)
        if not any(k in AUTO + ("QU",) for k in clash) and all(is_aliased(k) for k in clash):
            return []  # the caller gave two sources the same alias: not a statement the property speaks of
        tag = "|automatic_alias" if any(k in AUTO + ("QU",) for k in clash) else ""  # (two root causes: tables of one name / a subquery's sqN)
        return [(mksig("any", case["kind"], "ambiguous_source_name") + tag, "sources %r are all addressed as %r in %r" % (clash, [n for n, ks in names.items() if len(ks) > 1], sql))]
    # a name that qualifies references is a name the statement defines: an explicit or automatic alias stands, at least once, where it is
    # not a qualifier (after its source in FROM / JOIN / UPDATE / INTO)
    for key in case["sources"]:
        spec = POOL[key]
        alias = (spec[3] if spec[0] == "tbl" else (spec[2] if spec[0] == "sub" else None)) or an.get(key)
        if not alias or spec[0] == "cte":
            continue
        qualifies = any(t.kind == "qid" and t.value == alias and i + 1 < len(toks) and toks[i + 1].kind == "punct" and toks[i + 1].text == "." for i, t in enumerate(toks))
        defined = any(t.kind == "qid" and t.value == alias and not (i + 1 < len(toks) and toks[i + 1].kind == "punct" and toks[i + 1].text == ".") for i, t in enumerate(toks))
        if qualifies and not defined:
            out.append((mksig("any", case["kind"], "alias_not_defined", spec[0]), "references are qualified with %r, but the statement never gives that name to a source: %r" % (alias, sql)))
            return out
    corr = [o for o in case["occ"] if o[2] in ("corr_outer", "corr_inner")]
    if corr:
        # one name, two references in operand order: the qualifiers must be those of the two sources, in that order
        idx = [i for i, t in enumerate(toks) if t.kind == "qid" and t.value == corr[0][0]]
        got = [qualifier_before(toks, i) for i in idx]
        want = [qual_name(o[1], auto_names(case).get(o[1])) for o in corr]
        if "QI" in (corr[0][1], corr[1][1]):
            # the inner statement names its own source: any name will do that is not the outer source's
            if None not in got and got[0] == got[1]:
                out.append((mksig("any", case["kind"], "correlated", "automatic_alias_on_both_levels"),
                            "column %s of the outer source %s and of the inner subquery's own un-aliased source carry the same qualifier %r: the inner one shadows the outer (%r)" % (corr[0][0], [o[1] for o in corr if o[1] != "QI"][0], got[0], sql)))
        elif got != want:
            fail = "missing_qualifier" if None in got else "wrong_qualifier"
            out.append((mksig("any", case["kind"], "correlated", "same_name", fail),
                        "column %s of %s and of %s in a correlated subquery: expected qualifiers %r, rendered %r in %r" % (corr[0][0], corr[0][1], corr[1][1], want, got, sql)))
    for name, key, pos in case["occ"]:
        if pos in ("corr_outer", "corr_inner"):
            continue
        idx = [i for i, t in enumerate(toks) if t.kind == "qid" and t.value == name]
        if not idx:
            continue  # the clause is not rendered by this dialect/statement shape
        exp = expected(case, key, pos)
        for i in idx:
            got = qualifier_before(toks, i)
            if pos == "conflict_excluded" and got == "nw" and any(st_[0] == "as_" for st_ in case["steps"]):
                continue  # MySQL's row alias plays EXCLUDED's part
            if pos == "conflict_excluded" and got is not None and got.upper() == "EXCLUDED":
                continue
            if pos == "conflict_excluded" and got is not None and i >= 4 and toks[i - 3].text == "." and toks[i - 4].kind == "word" and toks[i - 4].value == "EXCLUDED":
                sig = mksig("any", case["kind"], pos, "aliased" if key and is_aliased(key) else "tbl", "excluded_three_part_name")
                if sig not in seen:
                    seen.add(sig)
                    out.append((sig, "EXCLUDED is followed by a qualified name (%s.%s) in %r" % (got, name, sql)))
                continue
            if isinstance(exp, tuple):
                ok = got is None or got == exp[1]
                fail = "wrong_qualifier"
            elif exp is None:
                ok = got is None
                fail = "over_qualified"
            else:
                ok = got == exp
                fail = "missing_qualifier" if got is None else ("underlying_name_instead_of_alias" if key and POOL[key][0] == "tbl" and got == POOL[key][1] else "wrong_qualifier")
            if not ok:
                shape = "aliased" if key and is_aliased(key) else (POOL[key][0] if key else "none")
                shape = {"QD": "derived_from_preused", "QU": "preused_query", "UN": "auto_setop", "QN": "auto_query", "QN2": "auto_query", "P3": "self_join", "P4": "self_join", "TS": "self_join"}.get(key, shape)
                if any(str(k_).startswith("from:") for k_ in case.get("combo") or []) and shape == "self_join":
                    shape = "repeated_from_item"
                sig = mksig(cls if pos in ("update_orderby", "returning") or case["kind"].startswith("update_j") else "any", case["kind"], pos, shape, fail)
                if any(o[2] == "corr_outer_sel" for o in case["occ"]) and pos in ("corr_outer_sel", "corr_select"):
                    # one root cause whatever the two sources are: the inner query does not see that its select list names an outer table
                    sig = mksig("any", "correlated_select_list", fail)
                if sig not in seen:
                    seen.add(sig)
                    out.append((sig, "field %s of source %s at %s: expected qualifier %r, rendered %r in %r" % (name, key, pos, exp, got, sql)))
    if cls == "sqlite" and case["kind"] == "select" and not out and not case.get("foreign"):
        r = sqlite_prepare(sql, case)
        if r is not None:
            out.append((mksig("sqlite", case["kind"], "engine", r[0]), "%s: %r" % (r[1], sql)))
    return out


_con = None


def sqlite_prepare(sql, case):
    """prepare against a schema where every table has every marker column: ambiguity / unknown column reveal wrong qualification"""
    cols = sorted({o[0] for o in case["occ"]} | {"k1", "k2"})
    con = sqlite3.connect(":memory:")
    try:
        con.execute("ATTACH ':memory:' AS sc")
        for t in ("tp", "tb", "td", "ta", "tq", "tf", "tn", "sc.ts", "cc"):
            con.execute("CREATE TABLE %s (%s)" % (t, ",".join('"%s"' % c for c in cols)))
        try:
            con.execute("EXPLAIN " + sql)
        except sqlite3.Error as e:
            msg = str(e)
            if "ambiguous column" in msg:
                return ("ambiguous", msg)
            if "no such column" in msg:
                # a subquery source only exposes its own select list; references to other columns are the generator's doing
                if any(POOL[s][0] in ("sub", "cte") for s in case["sources"]):
                    return None
                return ("no_such_column", msg)
            return None
    finally:
        con.close()
    return None


# ---- enumerated family: a self-join written with ONE table object, its condition built by the library (on_field / using) --------------------

def one_object_cases():
    for cls in CTXS:
        for base in ("select", "select_where", "update"):
            for how in ("on_field", "on_field_two", "using"):
                yield {"family": "one_object_self_join", "cls": cls, "base": base, "how": how}


def check_one_object(case):
    """Q.from_(t).join(t).on_field("k"): the second occurrence gets the automatic alias t2, and the condition the LIBRARY builds links the two
    occurrences (t.k = t2.k) - a condition between an occurrence and itself would be a tautology"""
    import pypika_tortoise as P

    cls = case["cls"]
    Q = prog.query_cls(cls)
    t = P.Table("tp")
    try:
        if case["base"] == "update":
            q = Q.update(t).set(t.v, 1)
        else:
            q = Q.from_(t).select(t.v)
            if case["base"] == "select_where":
                q = q.where(t.w == 1)
        j = q.join(t)
        q = j.using("k9") if case["how"] == "using" else (j.on_field("k9") if case["how"] == "on_field" else j.on_field("k9", "k8"))
        sql = q.get_sql(prog.sql_context(cls))
    except Exception as e:
        if type(e).__module__.startswith("pypika_tortoise"):
            return []
        return [(mksig("any", "one_object_self_join", "raises", type(e).__name__), repr(e))]
    if not sql:
        return []
    toks = lex.lex(sql, cls)
    names = [i for i, tk in enumerate(toks) if tk.kind == "qid" and tk.value == "tp2" and not (i + 1 < len(toks) and toks[i + 1].text == ".")]
    if len(names) != 1:
        return [(mksig("any", "one_object_self_join", "alias_not_defined_once"), "the automatic alias tp2 is defined %d times in %r" % (len(names), sql))]
    if case["how"] == "using":
        return []
    out = []
    for col_ in (["k9"] if case["how"] == "on_field" else ["k9", "k8"]):
        idx = [i for i, tk in enumerate(toks) if tk.kind == "qid" and tk.value == col_]
        got = [qualifier_before(toks, i) for i in idx]
        if sorted(map(str, got)) != ["tp", "tp2"]:
            out.append((mksig("any", "one_object_self_join", "condition_links_an_occurrence_with_itself"), "on_field(%r) of a table joined to itself: the condition's qualifiers are %r, expected tp and tp2, in %r" % (col_, got, sql)))
            break
    return out


def check_case(case):
    if case.get("family") == "one_object_self_join":
        return check_one_object(case)
    return [x for x in check_program(case) if x[0] != "__build__"]


def valid_case(case):
    try:
        if case.get("family") == "one_object_self_join":
            return case in list(one_object_cases())
        ok = case["cls"] in CTXS and all(len(o) == 3 and (o[1] is None or o[1] in POOL) for o in case["occ"]) and all(s in POOL for s in case["sources"]) and case["kind"] in (
            "select", "insert", "insert_select", "upsert", "upsert_select", "update", "update_from", "update_join", "delete")
        if not ok:
            return False
        # the recorded facts must still describe the program
        txt = json.dumps(case["steps"])
        import re as _re
        names = [o[0] for o in case["occ"] if o[2] != "corr_inner"]
        ncorr = [o[2] for o in case["occ"] if o[2] in ("corr_outer", "corr_inner")]
        if sorted(ncorr) not in ([], ["corr_inner", "corr_outer"]):
            return False
        if ncorr:
            co = next(o for o in case["occ"] if o[2] == "corr_outer")
            ci = next(o for o in case["occ"] if o[2] == "corr_inner")
            if co[1] == ci[1] or co[1] not in case["sources"] or ci[1] not in ("N", "NA", "QI") or (ci[1] == "QI" and co[1] not in AUTO + ("QU",)) or co[0] != ci[0]:
                return False  # the outer column belongs to a source of the statement, the inner one to the subquery's own table
        if len(set(names)) != len(names) or any(not _re.fullmatch(r"f[0-9]+", n) for n in names):
            return False
        if any('"%s"' % o[0] not in txt for o in case["occ"]):
            return False
        # every recorded occurrence names the source the program really takes the column from
        for name, key, pos in case["occ"]:
            if key is not None and ('["col", "%s", "%s"]' % (key, name)) not in txt and ('["colitem", "%s", "%s"]' % (key, name)) not in txt and ('["py", "%s"]' % name) not in txt:
                return False
        if bool(case.get("foreign")) != ('["col", "F",' in txt):
            return False  # the recorded facts (a reference to a table outside the statement) must still describe the program
        if case["kind"] in ("select", "delete") and not any(st_[0] == "from_" for st_ in case["steps"]):
            return False
        if bool(case.get("corr")) != any(o[2] == "corr_outer" for o in case["occ"]):
            return False
        declared = [s[1][0][1] for s in case["steps"] if s[0] in ("from_", "into", "update") and s[1] and s[1][0][0] == "src"] + [s[1][0][1] for s in case["steps"] if s[0] == "join"]
        want = set(case["sources"])
        if case["kind"] in ("insert_select", "upsert_select"):
            return True
        return want <= set(declared) and set(d for d in declared if case["kind"] not in ("insert", "upsert") or True) <= want | set(declared[:1])
    except (Exception, HarnessError):
        return False


def nontrivial(case):
    clauses = {o[2] for o in case["occ"]}
    return (len(case["sources"]) >= 2 or any(is_aliased(s) for s in case["sources"])) and len(clauses) >= 3


def shards(tier, sd):
    n = 8 if tier == "quick" else 32
    return [(tier, sd * 1000 + k) for k in range(n)] + [("combos", 0)]


def run_shard(shard):
    tier, sd = shard
    col = Collector()
    if tier == "combos":
        for case in one_object_cases():
            col.case(case, True, classes=("one_object_self_join",))
            for sig, detail in check_one_object(case):
                col.violation(sig, case, detail)
        for cls in CTXS:
            for combo in COMBOS:
                case = combo_case(cls, combo)
                res = check_program(case)
                if res and res[0][0] == "__build__":
                    col.count("combo_build_raised:" + "+".join(combo))
                    col.evaluations += 1
                    continue
                col.case(case, True, classes=("combo:" + "+".join(combo),))
                for sig, detail in res:
                    col.violation(sig, case, detail)
        return col
    nex = 500 if tier == "quick" else 6000

    @seed(sd)
    @settings(max_examples=nex, database=None, deadline=None, suppress_health_check=list(HealthCheck), report_multiple_bugs=False)
    @given(program())
    def prop(case):
        res = check_program(case)
        if res and res[0][0] == "__build__":
            col.count("build_raised:" + res[0][1].split(":")[0])
            return
        sample = None
        if len(col.samples) < col.MAX_SAMPLES and nontrivial(case):
            try:
                sample = {"cls": case["cls"], "kind": case["kind"], "sql": prog.build_program({"cls": case["cls"], "sources": POOL, "steps": case["steps"]}).get_sql(prog.sql_context(case["cls"]))}
            except Exception:
                pass
        col.case(case, nontrivial(case), classes=("kind:" + case["kind"], "correlated:%s" % bool(case.get("corr")), "early_clauses:%s" % bool(case.get("early")), "cls:" + case["cls"], "multi:%s" % multi_source(case)) + tuple("shape:" + POOL[s][0] + ("_aliased" if is_aliased(s) else "") for s in case["sources"]), sample=sample)
        for sig, detail in res:
            col.violation(sig, case, detail)

    prop()
    return col
