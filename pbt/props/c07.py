"""C07 - User-supplied names are emitted as single, correctly quoted identifiers.

Domain   statement templates that mention user names at every emission site (FROM / JOIN tables, schema and database prefixes, INSERT /
         UPDATE targets and column lists, qualifiers, select / GROUP BY / ORDER BY aliases, table and subquery aliases, index hints,
         FOR UPDATE OF, CTE definitions and references, USING, RETURNING, DISTINCT ON, ON CONFLICT, DDL table / column / unique /
         primary-key / period names, DROP) x names = any non-empty Unicode string without NUL x six classes.
Oracle   renaming is a homomorphism on token streams: built once with plain unique names and once with adversarial names, (1) every
         plain name occurrence is a quoted-identifier token with the context's quote character, (2) the adversarial token stream is the
         plain one with each identifier token replaced by an identifier token whose decoded value is the adversarial name.
         (3) SQLite: the statement is prepared against a schema that carries exactly the adversarial names.
"""
from __future__ import annotations

import json
import sqlite3

from hypothesis import HealthCheck, given, seed, settings, strategies as st

from pbt import lex, prog
from pbt.core import Collector, HarnessError, mksig

ID = "C07"
RULE = ("site templates x Hypothesis-generated names (quote characters of every dialect, dots, spaces, keywords, mixed case, leading digits, control and "
        "non-ASCII characters, arbitrary Unicode text) x six classes. Non-trivial = a name contains the active quote character, a dot, a space, a keyword "
        "or an upper-case letter and the template has a definition/reference pair; distinct = distinct (template, names, class). Oracle: renaming homomorphism "
        "on token streams, plus: every quoted identifier of the plain rendering is a supplied name and every supplied name is printed; plus fixed sets "
        "of short / keyword / punctuation names.")
ASSUMPTIONS = [
    "identifier quoting per dialect: \"..\" with \"\" doubling (all but MySQL), `..` with `` doubling (MySQL); Oracle cannot escape a double quote inside an identifier, so it is not generated for Oracle",
    "function names, COLLATE names, SQL types and LiteralValue/PseudoColumn texts are not user names in the property's sense",
    "the empty string and names containing NUL are not names",
]

CTXS = prog.CLS_NAMES
NN = 9
PLAIN = ["n%dq" % i for i in range(NN)]


def T(name, schema=None, alias=None):
    return ["tbl", name, schema, alias]


def templates(cls):
    """name -> function(N) -> program ; N is a list of NN names"""
    t = {}

    def q(steps, sources):
        return {"cls": cls, "sources": sources, "steps": steps}

    t["select_join"] = lambda N: q(
        [["from_", [["src", "A"]]], ["join", [["src", "B"], ["enum", "JoinType", "left"]], {}, ["on", [["eq", ["col", "A", N[5]], ["col", "B", N[6]]]]]],
         ["select", [["as", ["col", "A", N[5]], N[7]], ["col", "B", N[6]]]], ["where", [["gt", ["col", "B", N[8]], ["raw", 1]]]],
         ["groupby", [["as", ["col", "A", N[5]], N[7]]]], ["orderby", [["as", ["col", "A", N[5]], N[7]], ["col", "B", N[6]]]]],
        {"A": T(N[0], N[1], N[2]), "B": T(N[3], None, N[4])})
    # ORDER BY / GROUP BY naming a select item's alias by a string
    t["orderby_alias_name"] = lambda N: q([["from_", [["src", "A"]]], ["select", [["as", ["add", ["col", "A", N[1]], ["raw", 1]], N[2]], ["as", ["fn", "Count", [["col", "A", N[3]]]], N[4]]]],
                                           ["groupby", [["py", N[2]]]], ["orderby", [["py", N[4]]]], ["orderby", [["py", N[2]]]]], {"A": T(N[0])})
    t["db_schema_table"] = lambda N: q([["from_", [["src", "A"]]], ["select", [["col", "A", N[3]]]], ["join", [["src", "B"], ["enum", "JoinType", "inner"]], {}, ["using", [["py", N[5]]]]]],
                                      {"A": T(N[0], ["schema", N[2], ["schema", N[1], None]], None), "B": T(N[4], ["schema", N[6], ["database", N[7]]], None)})
    t["plain_unaliased"] = lambda N: q([["from_", [["src", "A"]]], ["from_", [["src", "B"]]], ["select", [["col", "A", N[2]], ["col", "B", N[3]], ["py", N[4]]]], ["where", [["eq", ["col", "A", N[2]], ["col", "B", N[3]]]]],
                                        ["groupby", [["py", N[4]]]], ["orderby", [["py", N[5]]]]], {"A": T(N[0]), "B": T(N[1])})
    t["make_tables"] = lambda N: q([["from_", [["src", "A"]]], ["join", [["src", "B"], ["enum", "JoinType", "inner"]], {}, ["on", [["eq", ["col", "A", N[3]], ["col", "B", N[4]]]]]], ["select", [["col", "A", N[3]], ["col", "B", N[4]]]]],
                                  {"A": ["mk", N[0]], "B": ["mk", N[1], N[2]]})
    t["insert"] = lambda N: q([["into", [["src", "A"]]], ["columns", [["py", N[1]], ["col", "A", N[2]]]], ["insert", [["raw", 1], ["raw", 2]]]], {"A": T(N[0], N[3])})
    t["insert_str_table"] = lambda N: q([["into", [["py", N[0]]]], ["columns", [["py", N[1]]]], ["insert", [["raw", 1]]]], {})
    t["update"] = lambda N: q([["update", [["src", "A"]]], ["set", [["py", N[1]], ["raw", 1]]], ["set", [["col", "A", N[2]], ["col", "A", N[3]]]], ["where", [["eq", ["col", "A", N[4]], ["raw", 2]]]]], {"A": T(N[0], None, N[5])})
    t["update_from"] = lambda N: q([["update", [["src", "A"]]], ["from_", [["src", "B"]]], ["set", [["py", N[2]], ["col", "B", N[3]]]], ["where", [["eq", ["col", "A", N[4]], ["col", "B", N[5]]]]]], {"A": T(N[0]), "B": T(N[1])})
    t["delete"] = lambda N: q([["from_", [["src", "A"]]], ["delete", []], ["where", [["eq", ["col", "A", N[1]], ["raw", 2]]]]], {"A": T(N[0], N[2])})
    t["index_hints_for_update"] = lambda N: q([["from_", [["src", "A"]]], ["select", [["col", "A", N[1]]]], ["force_index", [["py", N[2]], ["index", N[3]]]], ["use_index", [["py", N[4]]]],
                                               ["for_update", [], {"of": ["pytuple", [["py", N[5]]]]}]], {"A": T(N[0])})
    sub = lambda N: {"cls": "inherit", "sources": {"I": T(N[3])}, "steps": [["from_", [["src", "I"]]], ["select", [["col", "I", N[4]], ["as", ["col", "I", N[5]], N[6]]]]]}  # noqa: E731
    t["subquery_alias"] = lambda N: q([["from_", [["src", "S"]]], ["select", [["col", "S", N[4]], ["col", "S", N[6]]]], ["where", [["gt", ["col", "S", N[6]], ["raw", 0]]]]], {"S": ["sub", sub(N), N[0]]})
    t["subquery_join"] = lambda N: q([["from_", [["src", "A"]]], ["join", [["src", "S"], ["enum", "JoinType", "inner"]], {}, ["on", [["eq", ["col", "A", N[2]], ["col", "S", N[4]]]]]], ["select", [["col", "S", N[6]]]]],
                                     {"A": T(N[1]), "S": ["sub", sub(N), N[0]]})
    t["cte"] = lambda N: q([["with_", [["q", sub(N)], ["py", N[0]]]], ["from_", [["src", "C"]]], ["select", [["col", "C", N[4]], ["py", N[6]]]], ["where", [["gt", ["col", "C", N[4]], ["raw", 0]]]]], {"C": ["cte", N[0]]})
    t["cte_join"] = lambda N: q([["with_", [["q", sub(N)], ["py", N[0]]]], ["from_", [["src", "A"]]], ["join", [["src", "C"], ["enum", "JoinType", "inner"]], {}, ["on", [["eq", ["col", "A", N[2]], ["col", "C", N[4]]]]]], ["select", [["col", "C", N[6]]]]],
                                {"A": T(N[1]), "C": ["cte", N[0]]})
    t["create"] = lambda N: q([["create_table", [["py", N[0]]]], ["columns", [["py", N[1]], ["pytuple", [["py", N[2]], ["py", "INT"]]], ["column", N[3], "INT", True, ["raw", 5]]]],
                               ["unique", [["py", N[1]], ["py", N[2]]]], ["primary_key", [["py", N[3]]]], ["period_for", [["py", N[4]], ["py", N[1]], ["py", N[2]]]]], {})
    # constraints given the other documented forms of a column: a (name, type) pair and a Column object
    t["create_constraint_forms"] = lambda N: q([["create_table", [["py", N[0]]]], ["columns", [["pytuple", [["py", N[1]], ["py", "INT"]]], ["pytuple", [["py", N[2]], ["py", "INT"]]], ["py", N[3]]]],
                                                ["unique", [["pytuple", [["py", N[1]], ["py", "INT"]]], ["column", N[2], "INT", True, None]]], ["primary_key", [["pytuple", [["py", N[3]], ["py", "INT"]]]]]], {})
    t["create_make_columns"] = lambda N: q([["create_table", [["py", N[0]]]], ["columns", [["mkcols", [["py", N[1]], ["pytuple", [["py", N[2]], ["py", "INT"]]], ["py", N[3]]]]]]], {})
    t["insert_columns_list"] = lambda N: q([["into", [["src", "A"]]], ["columns", [["pylist", [["py", N[1]], ["py", N[2]]]]]], ["insert", [["raw", 1], ["raw", 2]]]], {"A": T(N[0])})
    t["function_schema"] = lambda N: q([["from_", [["src", "A"]]], ["select", [["as", ["cfn", "fnx", [["col", "A", N[1]]], {"schema": N[2]}], N[3]]]]], {"A": T(N[0])})
    t["create_table_obj"] = lambda N: q([["create_table", [["src", "A"]]], ["columns", [["py", N[2]]]], ["if_not_exists", []]], {"A": T(N[0], N[1])})
    t["create_as_select"] = lambda N: q([["create_table", [["py", N[0]]]], ["as_select", [["q", sub(N)]]]], {})
    t["drop"] = lambda N: q([["drop_table", [["src", "A"]]], ["if_exists", []]], {"A": T(N[0], N[1])})
    t["setop_orderby"] = lambda N: q([["from_", [["src", "A"]]], ["select", [["as", ["col", "A", N[1]], N[2]]]], ["union", [["q", {"cls": "inherit", "sources": {"I": T(N[3])}, "steps": [["from_", [["src", "I"]]], ["select", [["col", "I", N[4]]]]]}]]],
                                      ["orderby", [["as", ["col", "A", N[1]], N[2]]]]], {"A": T(N[0])})
    t["star_alias_fn"] = lambda N: q([["from_", [["src", "A"]]], ["select", [["star", "A"], ["as", ["fn", "Sum", [["col", "A", N[2]]]], N[3]], ["as", ["add", ["col", "A", N[2]], ["raw", 1]], N[4]], ["as", ["vw", ["raw", 7]], N[5]],
                                                                            ["as", ["case", [[["eq", ["col", "A", N[2]], ["raw", 1]], ["raw", 2]]], ["raw", 3]], N[6]]]]], {"A": T(N[0], None, N[1])})
    t["on_field"] = lambda N: q([["from_", [["src", "A"]]], ["join", [["src", "B"], ["enum", "JoinType", "inner"]], {}, ["on_field", [["py", N[2]], ["py", N[3]]]]], ["select", [["py", N[2]]]]], {"A": T(N[0]), "B": T(N[1])})
    t["temporal"] = lambda N: q([["from_", [["src", "A"]]], ["select", [["col", "A", N[1]]]]], {"A": ["tbl", N[0], None, N[2], {"for": ["between", ["systime"], ["raw", "a"], ["raw", "b"]]}]})
    if cls == "postgresql":
        t["pg_returning_distinct_on"] = lambda N: q([["update", [["src", "A"]]], ["set", [["py", N[1]], ["raw", 1]]], ["returning", [["py", N[2]], ["col", "A", N[3]], ["as", ["col", "A", N[3]], N[4]]]]], {"A": T(N[0])})
        t["pg_distinct_on"] = lambda N: q([["from_", [["src", "A"]]], ["select", [["col", "A", N[1]]]], ["distinct_on", [["py", N[2]], ["col", "A", N[3]]]]], {"A": T(N[0])})
    if cls in ("postgresql", "sqlite", "generic"):
        t["upsert"] = lambda N: q([["into", [["src", "A"]]], ["insert", [["raw", 1], ["raw", 2]]], ["on_conflict", [["py", N[1]], ["col", "A", N[2]]]], ["do_update", [["py", N[3]], ["raw", 5]]], ["do_update", [["py", N[4]]]], ["where", [["eq", ["col", "A", N[5]], ["raw", 1]]]]], {"A": T(N[0])})
    if cls == "mysql":
        t["mysql_upsert_alias"] = lambda N: q([["into", [["src", "A"]]], ["insert", [["raw", 1], ["raw", 2]]], ["as_", [["py", N[1]]]], ["on_conflict", []], ["do_update", [["py", N[2]]]], ["do_update", [["py", N[3]], ["raw", 4]]]], {"A": T(N[0])})
        t["mysql_load"] = lambda N: q([["load", [["py", "/f"]]], ["into", [["py", N[0]]]]], {})
    return t


KEYWORDS = ["select", "from", "order", "group", "table", "where", "Select", "NULL", "user"]
SPECIAL = ['"', "`", "'", ".", " ", "[", "]", "\\", "--", "/*", "%s", "?", ";", "\n", "\t", "é", "\U0001f600", "A", "Z", "1", "_", "$", "#"]


def name_st():
    piece = st.sampled_from(SPECIAL + ["a", "b", "x"])
    adv = st.lists(piece, min_size=1, max_size=5).map("".join)
    gen_ = st.text(alphabet=st.characters(blacklist_categories=("Cs",), blacklist_characters="\0"), min_size=1, max_size=6)
    return st.one_of(adv, adv, st.sampled_from(KEYWORDS), gen_, st.sampled_from(["1a", "Mixed Case", "a.b", 'we"ird', "back`tick"]))


def names_st():
    return st.lists(name_st(), min_size=NN, max_size=NN, unique=True)


def quote_of(cls):
    return "`" if cls == "mysql" else '"'


def render(cls, p):
    q = prog.build_program(p)
    return q.get_sql(prog.sql_context(cls))


def site_of(tokens, i):
    """coarse emission site of token i: the last clause keyword before it + whether it qualifies / is qualified / follows as alias"""
    kw = "START"
    for t in tokens[:i]:
        if t.kind == "word" and t.value in ("SELECT", "FROM", "JOIN", "ON", "WHERE", "GROUP", "ORDER", "HAVING", "INTO", "UPDATE", "SET", "VALUES", "WITH", "USING", "INDEX", "OF", "TABLE",
                                           "RETURNING", "CONFLICT", "DISTINCT", "UNIQUE", "KEY", "PERIOD", "UNION", "AS", "DUPLICATE", "FOR", "CREATE", "DROP"):
            kw = t.value
    role = "name"
    if i + 1 < len(tokens) and tokens[i + 1].kind == "punct" and tokens[i + 1].text == ".":
        role = "qualifier"
    elif i > 0 and tokens[i - 1].kind == "punct" and tokens[i - 1].text == ".":
        role = "qualified"
    return kw + ":" + role


# (dialect, template, slot) of names a dialect legitimately does not print
NOT_RENDERED = set()
# identifiers the library writes on its own
LIBRARY_NAMES = set()


def check_names(cls, tname, names):
    """-> list of (failure, site, detail)"""
    tm = templates(cls).get(tname)
    if tm is None:
        return [("__na__", "", "")]
    try:
        s_plain = render(cls, tm(PLAIN))
    except Exception as e:
        raise HarnessError("template %s/%s does not build with plain names: %r" % (cls, tname, e))
    try:
        s_adv = render(cls, tm(names))
    except Exception as e:
        return [("raises:" + type(e).__name__, tname, "names %r: %r" % (names, e))]
    tp, ta = lex.lex(s_plain, cls), lex.lex(s_adv, cls)
    out = []
    # (0) every name the program supplies is emitted at least once ("denoting exactly the supplied name": a name replaced
    #     by something else - in the plain and in the adversarial rendering alike - is invisible to the comparison below)
    supplied = [n for n in PLAIN if json.dumps(n) in json.dumps(tm(PLAIN))]
    emitted = {t.value for t in tp if t.kind == "qid"}
    for n in supplied:
        if n not in emitted and (cls, tname, PLAIN.index(n)) not in NOT_RENDERED:
            out.append(("name_not_emitted", tname, "supplied name %r (slot %d) occurs nowhere in %r" % (n, PLAIN.index(n), s_plain)))
    # ... and every quoted identifier is a supplied name (something else in a name's place is not "the supplied name")
    for i, t in enumerate(tp):
        if t.kind == "qid" and t.value not in PLAIN and t.value not in LIBRARY_NAMES:
            out.append(("foreign_identifier", site_of(tp, i), "identifier %r in %r is none of the supplied names" % (t.text, s_plain)))
    if out:
        return out[:3]
    qc = quote_of(cls)
    mapping = dict(zip(PLAIN, names))
    # (1) every plain name occurrence is one correctly quoted identifier token
    for i, t in enumerate(tp):
        hit = [n for n in PLAIN if n in t.text or n.upper() in t.text]
        if not hit:
            continue
        if t.kind != "qid":
            out.append(("unquoted", site_of(tp, i), "name %s is emitted as %s token %r in %r" % (hit[0], t.kind, t.text, s_plain)))
        elif t.value not in PLAIN:
            out.append(("merged", site_of(tp, i), "token %r in %r" % (t.text, s_plain)))
        elif qc not in t.flags:
            out.append(("wrong_quote_char", site_of(tp, i), "token %r in %r" % (t.text, s_plain)))
    if out:
        return out[:3]
    # (2) homomorphism
    want = [("qid", mapping[t.value]) if (t.kind == "qid" and t.value in mapping) else t.key for t in tp]
    got = [t.key for t in ta]
    if got != want:
        j = 0
        while j < min(len(got), len(want)) and got[j] == want[j]:
            j += 1
        site = site_of(tp, min(j, len(tp) - 1))
        nm = mapping.get(tp[j].value) if j < len(tp) and tp[j].kind == "qid" else None
        if nm is None:
            # the stream broke earlier than a name token: blame the nearest preceding name
            k = j
            while k >= 0 and not (k < len(tp) and tp[k].kind == "qid" and tp[k].value in mapping):
                k -= 1
            nm = mapping.get(tp[k].value) if k >= 0 else None
            site = site_of(tp, max(k, 0))
        kind = "split_or_changed"
        if nm is not None and qc in nm:
            kind = "quote_char_not_escaped"
        out.append((kind, site, "names %r: %r (plain form %r)" % (names, s_adv, s_plain)))
    return out


def special(names, cls):
    qc = quote_of(cls)
    return any(qc in n or "." in n or " " in n or n.lower() in [k.lower() for k in KEYWORDS] or any(c.isupper() for c in n) for n in names)


def sig_of(cls, tname, failure, site):
    if failure == "quote_char_not_escaped":
        return mksig(failure, site.split(":")[0] if False else "any_site")
    return mksig(cls if failure in ("wrong_quote_char",) else "any", failure, site)


def admissible(names, cls):
    if cls == "oracle" and any('"' in n for n in names):
        return False
    # '*' alone is the API's spelling of "all columns" (select('*'), Field('*')), not a column name
    return all(n and "\0" not in n and n != "*" for n in names)


def check_case(case):
    if not admissible(case["names"], case["cls"]):
        return []
    return [(sig_of(case["cls"], case["template"], f, s), d) for f, s, d in check_names(case["cls"], case["template"], case["names"]) if not f.startswith("__")]


def valid_case(case):
    try:
        return case["cls"] in CTXS and len(case["names"]) == NN and len(set(case["names"])) == NN and all(isinstance(n, str) and n for n in case["names"]) and case["template"] in templates(case["cls"])
    except (Exception, HarnessError):
        return False


# name sets that are always tried (every template, every class): lengths 1 and 2 (helpers that take "a name or a (name, x) pair" must not
# mistake a two-character name for a pair), keywords, the quote characters, dots and spaces
FIXED_NAME_SETS = [
    ["ab", "cd", "ef", "gh", "ij", "kl", "mn", "op", "qr", "st", "uv", "wx"],
    ["a", "b", "c", "d", "e", "f", "g", "h", "i", "j", "k", "l"],
    ["1a", "a.", ".b", "a b", "x'", 'y"', "z`", "--", "/*", "%s", "$1", "é"],
    ["select", "from", "where", "group", "order", "table", "user", "NULL", "Select", "index", "key", "values"],
]


def shards(tier, sd):
    n = 6 if tier == "quick" else 24
    return [(tier, sd * 1000 + k) for k in range(n)] + [("fixed", 0)]


def run_shard(shard):
    tier, sd = shard
    col = Collector()
    if tier == "fixed":
        for names0 in FIXED_NAME_SETS:
            names = (names0 * 3)[:NN] if len(names0) < NN else names0[:NN]
            names = [n + ("" if names.index(n) == i else str(i)) for i, n in enumerate(names)]  # keep them distinct
            for cls in CTXS:
                if not admissible(names, cls):
                    col.count("inadmissible_names")
                    continue
                for tname in templates(cls):
                    case = {"cls": cls, "template": tname, "names": names}
                    col.case(case, True, classes=("fixed_names", "template:" + tname))
                    for f, sgn, d in check_names(cls, tname, names):
                        if not f.startswith("__"):
                            col.violation(sig_of(cls, tname, f, sgn), case, d)
        return col
    nex = 150 if tier == "quick" else 2500
    all_templates = sorted({k for c in CTXS for k in templates(c)})

    @seed(sd)
    @settings(max_examples=nex, database=None, deadline=None, suppress_health_check=list(HealthCheck), report_multiple_bugs=False)
    @given(names_st(), st.sampled_from(CTXS))
    def prop(names, cls):
        if not admissible(names, cls):
            col.count("inadmissible_names")
            return
        for tname in templates(cls):
            case = {"cls": cls, "template": tname, "names": names}
            res = check_names(cls, tname, names)
            col.case(case, special(names, cls), classes=("template:" + tname, "cls:" + cls))
            for f, s, d in res:
                if f.startswith("__"):
                    continue
                col.violation(sig_of(cls, tname, f, s), case, d)

    prop()
    col.notes["templates"] = all_templates
    return col
