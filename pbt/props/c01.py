"""C01 - Builder calls never alter the receiver or earlier-derived objects.

Domain   histories that are trees of builder calls (pbt/hist.py), every family of builder-decorated class.
Oracle   the linear twin: every live object must render (six contexts, inline + parameterised, metadata) exactly like an
         object rebuilt from its own chain of calls on fresh objects - after every step of the history.
"""
from __future__ import annotations

import functools

from hypothesis import HealthCheck, Phase, given, seed, settings, strategies as st

from pbt import hist, prog, snap
from pbt.core import Collector, HarnessError, mksig

ID = "C01"
RULE = ("histories = trees of builder calls over live objects of every builder-decorated family (six query-builder classes, set operations, "
        "CREATE/DROP/LOAD builders, tables, CASE, aggregate/analytic/window-frame functions, criteria, fields, tuples, join objects); after every "
        "step every live object is compared with its linear twin under all six contexts inline and parameterised; plus one enumerated family: for every "
        "(family, method) pair of every menu, two continuations of one receiver by that method, the method again on the first continuation and an unrelated call on the root. Non-trivial step = the receiver "
        "already has a child or its chain already contains the same method (clause non-empty); distinct = distinct history.")
ASSUMPTIONS = [
    "arguments of every call are fresh instances (the property allows auto-aliasing of an argument; sharing argument instances would make that visible elsewhere)",
    "immutable=False builders are outside the property and are not generated",
    "a call that raises produces no object; the receiver must be unaffected all the same",
]


class Live:
    __slots__ = ("obj", "family", "root", "steps", "expected", "children", "expected_full")

    def __init__(self, obj, family, root, steps):
        self.obj, self.family, self.root, self.steps = obj, family, root, steps
        self.expected = None
        self.children = 0


def defining_class(obj, method):
    """name of the class in the MRO that defines the method (one root cause, one signature)"""
    for c in type(obj).__mro__:
        if method in vars(c):
            return c.__name__
    return type(obj).__name__


def rebuild(root, steps, family):
    obj = hist.build_root(root)
    for st_ in steps:
        res, exc = hist.apply(obj, st_, family if not (family == "setop" and not _is_setop(obj)) else _qb_family(root))
        if exc is None and res is not None:
            obj = res
    return obj


def _is_setop(obj):
    return type(obj).__name__ == "_SetOperation"


def _qb_family(root):
    return "qb:" + root.get("cls", "generic")


def light_ctx(lv):
    return (hist.cls_of_family(lv.family),)


def twin_snapshots(lv):
    """(light snapshot, full snapshot) of the linear twin"""
    try:
        t = rebuild(lv.root, lv.steps, lv.family)
        return snap.render_snapshot(t, contexts=light_ctx(lv)), snap.render_snapshot(t)
    except RecursionError:
        return {"twin": "EXC:RecursionError"}, {"twin": "EXC:RecursionError"}


def run_history(h, on_violation, on_step=None):
    live: list[Live] = []
    for op in h["ops"]:
        blame = None
        new = None
        if op[0] == "new":
            try:
                lv = Live(hist.build_root(op[2]), op[1], op[2], [])
            except Exception as e:
                # not an immutability question; keep indices stable with a placeholder that no rule can change
                if on_step:
                    on_step("root", "raised:" + type(e).__name__, False, type(e).__name__)
                lv = Live(None, "dead", op[2], [])
                lv.expected, lv.expected_full = {}, None
                live.append(lv)
                continue
            live.append(lv)
            new = lv
            blame = ("new", op[1], "-")
        else:
            if op[1] >= len(live):
                continue
            recv = live[op[1]]
            st_ = op[2]
            if recv.family == "dead":
                lv = Live(None, "dead", op[2], [])
                lv.expected, lv.expected_full = {}, None
                live.append(lv)
                continue
            cname = defining_class(recv.obj, st_[0])
            blame = ("call", cname, st_[0])
            fam = recv.family
            res, exc = hist.apply(recv.obj, st_, fam)
            nontrivial = recv.children > 0 or any(s[0] == st_[0] for s in recv.steps) or any(s[0] == st_[0] for s in recv.root.get("steps", []))
            if on_step:
                on_step(cname, st_[0], nontrivial, exc)
            if exc is None and res is not None:
                if res is recv.obj:
                    on_violation(mksig("same_object", cname, st_[0]), "%s.%s returned the receiver itself" % (cname, st_[0]))
                    continue
                if type(res).__name__ == "Joiner":
                    continue
                recv.children += 1
                lv = Live(res, hist.result_family(fam, st_), recv.root, recv.steps + [st_])
                live.append(lv)
                new = lv
        for lv in live:
            if lv.family == "dead":
                continue
            now = snap.render_snapshot(lv.obj, contexts=light_ctx(lv))
            if lv.expected is None:
                lv.expected, lv.expected_full = twin_snapshots(lv)
                if now != lv.expected:
                    d = snap.diff_keys(now, lv.expected)
                    on_violation(mksig("derive_mismatch", blame[1], blame[2]),
                                 "object created by %s.%s differs from its linear twin in %s: %r vs twin %r" % (blame[1], blame[2], d[:3], now.get(d[0]), lv.expected.get(d[0])))
                    lv.expected = now
                continue
            if now != lv.expected:
                d = snap.diff_keys(now, lv.expected)
                rel = "receiver" if (op[0] == "call" and lv is live[op[1]]) else ("new" if lv is new else "other")
                on_violation(mksig("pollute", blame[1], blame[2]),
                             "%s.%s changed an existing object (%s) in %s: now %r, before %r" % (blame[1], blame[2], rel, d[:3], now.get(d[0]), lv.expected.get(d[0])))
                lv.expected = now
                lv.expected_full = None
    # final pass: every dialect context, inline and parameterised
    for lv in live:
        if lv.expected_full is None:
            continue
        now = snap.render_snapshot(lv.obj)
        if now != lv.expected_full:
            d = snap.diff_keys(now, lv.expected_full)
            last = lv.steps[-1][0] if lv.steps else "-"
            on_violation(mksig("final_mismatch", type(lv.obj).__name__, d[0].split(":")[0]),
                         "object (last call %s) differs from its linear twin at the end of the history in %s: %r vs twin %r" % (last, d[:3], now.get(d[0]), lv.expected_full.get(d[0])))
    return live


# ---- the partial query a join() call returns (Joiner): each way to finish it gives an independent query ---------------------------------

JOINER_FINISH = ("on_a", "on_b", "on_field", "using", "cross")


def joiner_cases():
    for cls in prog.CLS_NAMES:
        for base in ("select", "update"):
            for first in JOINER_FINISH:
                for second in JOINER_FINISH:
                    yield {"family": "joiner", "cls": cls, "base": base, "first": first, "second": second}


def check_joiner(case):
    import pypika_tortoise as P

    Q = prog.query_cls(case["cls"])
    t, u = P.Table("t"), P.Table("u")

    def start():
        return Q.from_(t).select(t.a) if case["base"] == "select" else Q.update(t).set(t.a, 1)

    def finish(j, how):
        if how == "on_a":
            return j.on(t.a == u.a)
        if how == "on_b":
            return j.on((t.b == u.b) & (u.c == 5))
        if how == "on_field":
            return j.on_field("k")
        if how == "using":
            return j.using("k2")
        return j.cross()

    try:
        j = start().join(u)
        q1 = finish(j, case["first"])
        before = snap.render_snapshot(q1)
        q2 = finish(j, case["second"])
        fresh1 = snap.render_snapshot(finish(start().join(u), case["first"]))
        fresh2 = snap.render_snapshot(finish(start().join(u), case["second"]))
    except Exception as e:
        return [(mksig("joiner", "raises", type(e).__name__), repr(e))]
    out = []
    if q1 is q2:
        out.append((mksig("joiner", "same_object"), "finishing one join() result twice (%s, then %s) returned the very same query object" % (case["first"], case["second"])))
    after = snap.render_snapshot(q1)
    if after != before or before != fresh1:
        d = snap.diff_keys(after, before) or snap.diff_keys(before, fresh1)
        out.append((mksig("joiner", "earlier_query_changed"), "the query made by %s changed when the same join() result was finished again by %s: %r -> %r" % (case["first"], case["second"], before.get(d[0]), after.get(d[0]))))
    elif snap.render_snapshot(q2) != fresh2:
        out.append((mksig("joiner", "second_query_differs"), "the second query (%s) is not what a fresh join() gives" % case["second"]))
    return out


OWN_BASES = ("select", "select_join", "update", "delete", "select_alias")
OWN_CALLS = ("from_", "join_cross", "join_on", "join_using", "from_twice", "join_joined_again")


def own_source_cases():
    """the argument of from_() / join() is the very object that is a source of the receiver already (a self-join written with one object):
    the automatic alias the new occurrence needs is a side effect on an ARGUMENT only as long as the receiver does not share it"""
    for cls in prog.CLS_NAMES:
        for base in OWN_BASES:
            for call in OWN_CALLS:
                yield {"family": "own_source", "cls": cls, "base": base, "call": call}


def check_own_source(case):
    import copy as _copy
    import pypika_tortoise as P

    Q = prog.query_cls(case["cls"])

    def build():
        t, u = P.Table("t", alias="x" if case["base"] == "select_alias" else None), P.Table("u")
        if case["base"] in ("select", "select_alias"):
            q = Q.from_(t).select(t.a).where(t.b == 1)
        elif case["base"] == "select_join":
            q = Q.from_(t).join(u).on(t.a == u.a).select(t.a, u.b)
        elif case["base"] == "update":
            q = Q.update(t).set(t.a, 1).where(t.b == 1)
        else:
            q = Q.from_(t).delete().where(t.b == 1)
        return q, t, u

    def call(q, t, u):
        c = case["call"]
        if c == "from_":
            return q.from_(t)
        if c == "from_twice":
            return q.from_(t).from_(t)
        if c == "join_cross":
            return q.join(t).cross()
        if c == "join_on":
            return q.join(t).on(t.a == 1)
        if c == "join_using":
            return q.join(t).using("k")
        return q.join(u).cross() if case["base"] == "select_join" else q.join(t).cross().join(t).cross()

    try:
        q, t, u = build()
        before = snap.render_snapshot(q)
        clone = _copy.deepcopy(q)
        try:
            call(q, t, u)
        except Exception as e:
            if not type(e).__module__.startswith("pypika_tortoise"):
                raise
        after = snap.render_snapshot(q)
        fresh = snap.render_snapshot(build()[0])
        clone_after = snap.render_snapshot(clone)
    except Exception as e:
        return [(mksig("own_source", "raises", type(e).__name__), repr(e))]
    out = []
    if after != before or before != fresh or clone_after != before:
        d = snap.diff_keys(after, before) or snap.diff_keys(before, fresh) or snap.diff_keys(clone_after, before)
        out.append((mksig("own_source", "receiver_changed"), "%s on a %s statement, given the receiver's own table object: the receiver rendered %r before the call and %r after it" % (case["call"], case["base"], before.get(d[0]), after.get(d[0]))))
    return out


def check_case(case):
    if case.get("family") == "joiner":
        return check_joiner(case)
    if case.get("family") == "own_source":
        return check_own_source(case)
    out = []
    seen = set()

    def onv(sig, detail):
        if sig not in seen:
            seen.add(sig)
            out.append((sig, detail))

    run_history(case, onv)
    return out


def valid_case(case):
    try:
        if case.get("family") == "joiner":
            return case in list(joiner_cases())
        if case.get("family") == "own_source":
            return case in list(own_source_cases())
        ops = case["ops"]
        n = 0
        for op in ops:
            if op[0] == "new":
                if op[1] not in hist.FAMILIES or not isinstance(op[2], dict):
                    return False
                n += 1
            elif op[0] == "call":
                if not (0 <= op[1] < n) or not isinstance(op[2], list) or len(op[2]) < 2:
                    return False
                n += 1
            else:
                return False
        return n > 0 and ops[0][0] == "new"
    except (Exception, HarnessError):
        return False


def shards(tier, sd):
    n = 8 if tier == "quick" else 32
    return [(tier, sd * 1000 + k, k) for k in range(n)] + [("matrix:" + tier, sd * 1000 + 700 + k, k) for k in range(8)] + [("joiner", 0, 0), ("own_source", 0, 0)]


@functools.lru_cache(maxsize=None)
def method_matrix():
    """every (family, method) pair of every menu - enumerated, because drawing the pair would leave many of them unvisited"""
    return [(fam, name) for fam in hist.FAMILIES for name in sorted({s.name for s in hist.menu(fam)})]


@st.composite
def matrix_history(draw, family, name):
    """root; two continuations of the root by the SAME method (the second made on the older receiver); the method again on the first
    continuation (its clause is non-empty now); one unrelated call on the root"""
    named = [s for s in hist.menu(family) if s.name == name]
    ops = [["new", family, draw(hist.root(family))]]
    ops.append(["call", 0, draw(hist.one_of_steps(named))])
    ops.append(["call", 0, draw(hist.one_of_steps(named))])
    f1 = hist.result_family(family, ops[1][2])
    ops.append(["call", 1, draw(hist.one_of_steps(named if f1 == family else hist.menu(f1)))])
    ops.append(["call", 0, draw(hist.one_of_steps(hist.menu(family)))])
    return {"ops": ops}


def run_matrix_shard(tier, sd, k):
    col = Collector()
    per = 4 if tier.endswith("quick") else 30
    pairs = method_matrix()
    for idx in range(k, len(pairs), 8):
        family, name = pairs[idx]

        @seed(sd * 1000 + idx)
        @settings(max_examples=per, database=None, deadline=None, suppress_health_check=list(HealthCheck), report_multiple_bugs=False, phases=[Phase.generate])
        @given(matrix_history(family, name))
        def one(h):
            steps = []

            def on_step(cname, m, nt, exc):
                steps.append(nt)
                col.count("step:%s.%s" % (cname, m))

            run_history(h, lambda sig, detail: col.violation(sig, h, detail), on_step)
            col.case(h, any(steps), classes=("matrix",))

        one()
    col.notes["method_matrix_pairs"] = len(pairs)
    return col


def run_shard(shard):
    tier, sd, k = shard
    if tier.startswith("matrix:"):
        return run_matrix_shard(tier, sd, k)
    if tier == "own_source":
        col = Collector()
        for case in own_source_cases():
            col.case(case, True, classes=("own_source",))
            for sig, detail in check_own_source(case):
                col.violation(sig, case, detail)
        return col
    if tier == "joiner":
        col = Collector()
        for case in joiner_cases():
            col.case(case, True, classes=("joiner",))
            for sig, detail in check_joiner(case):
                col.violation(sig, case, detail)
        return col
    col = Collector()
    nex = 500 if tier == "quick" else 4000
    fams = hist.FAMILIES
    # rotate emphasis: half of the shards concentrate on query builders
    families = [f for f in fams if f.startswith("qb:")] if k % 2 == 0 else fams

    @seed(sd)
    @settings(max_examples=nex, database=None, deadline=None, suppress_health_check=list(HealthCheck), report_multiple_bugs=False)
    @given(hist.history(families=families))
    def prop(h):
        steps = []

        def on_step(cname, m, nt, exc):
            steps.append(nt)
            col.count("step:%s.%s" % (cname, m))
            if nt:
                col.count("nontrivial_step:%s.%s" % (cname, m))
            if exc:
                col.count("raised:" + exc)

        def onv(sig, detail):
            col.violation(sig, h, detail)

        run_history(h, onv, on_step)
        col.case(h, any(steps), classes=("history_len:%d" % min(len(h["ops"]), 12),))

    prop()
    if k == 0:
        menu_methods = set()
        for f in fams:
            for s in hist.menu(f):
                menu_methods.add(s.name)
        disc = hist.discovered_builders()
        col.notes["uncovered"] = sorted("%s.%s" % cm for cm in disc if cm[1] not in menu_methods)
        col.notes["builder_methods_discovered"] = len(hist.discovered_builders())
    return col
