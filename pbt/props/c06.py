"""C06 - Operator grouping of the expression tree survives rendering.

Domain   exhaustive (parent, child, operand position) table over all operator kinds and leaf kinds x 6 contexts,
         plus Hypothesis-generated trees (depth <= 6).
Oracle   reference precedence parser over the reference lexer, compared in a normal form that hides exactly the
         allowed re-associations; plus SQLite evaluation of the rendered text against a fully parenthesised
         transcription on a grid of leaf assignments (also validates the reference parser itself).
"""
from __future__ import annotations

import itertools
import sqlite3

from hypothesis import HealthCheck, given, seed, settings, strategies as st

from pbt import exprparse, lex, prog
from pbt.core import Collector, HarnessError, mksig

ID = "C06"
RULE = ("expression trees as data (arith, unary minus, comparisons, LIKE, AND/OR/XOR, NOT, IN, BETWEEN, IS NULL, bitwise-and; leaves: "
        "columns, positive/zero/negative numbers, strings, NULL, CASE, function calls, POW/MOD, aggregates, tuples, subqueries): every "
        "(parent, child, position) triple enumerated under all six contexts + Hypothesis random trees. Non-trivial = depth >= 2 with a "
        "parent/child pair of different operator kinds or a non-commutative parent; distinct = distinct (tree, context). Plus plain Python numbers as left / right operands (the reflected operators) over every kind of other operand, and the LIKE family (ILIKE, RLIKE, REGEX, GLOB and negations).")
ASSUMPTIONS = [
    "precedence ladder: OR < XOR < AND < NOT < comparison-level (= <> < > <= >= IS IN LIKE BETWEEN, one left-associative level) < & < +,- < *,/ < unary minus",
    "re-association accepted only inside +/- chains (signed operand lists), pure * chains and AND/OR/XOR chains of one connective",
    "SQLite (3.40) evaluates the SQLite-context rendering; the other dialects rest on the reference lexer/parser",
]

ARITH = ("add", "sub", "mul", "div")
CMPS = ("eq", "ne", "gt", "ge", "lt", "le")
MATCHES = ("like", "not_like", "ilike", "not_ilike", "rlike", "regex", "glob")
BOOLS = ("and", "or", "xor")
CRIT_KINDS = CMPS + MATCHES + BOOLS + ("not", "isnull", "in", "notin", "between", "bitand", "col", "cfn", "tuple")
CTXS = prog.CLS_NAMES
SQLOP = {"add": "+", "sub": "-", "mul": "*", "div": "/", "eq": "=", "ne": "<>", "gt": ">", "ge": ">=", "lt": "<", "le": "<=",
         "and": "AND", "or": "OR", "like": "LIKE", "not_like": "NOT LIKE"}

_counter = itertools.count()


def C(i):
    return ["col", None, "c%d" % (i % 6)]


# ---- leaves / operator skeletons -----------------------------------------------------------------------------

LEAVES = {
    "col": lambda: C(0),
    "posint": lambda: ["vw", ["raw", 7]],
    "zero": lambda: ["vw", ["raw", 0]],
    "negint": lambda: ["vw", ["raw", -3]],
    "negfloat": lambda: ["vw", ["raw", -1.5]],
    "str": lambda: ["vw", ["raw", "s"]],
    "null": lambda: ["null"],
    "case": lambda: ["case", [[["eq", C(4), ["raw", 1]], ["raw", 2]]], ["raw", 3]],
    "fn": lambda: ["cfn", "ABS", [C(5)]],
    "pow": lambda: ["pow", C(4), ["raw", 2]],
    "mod": lambda: ["mod", C(4), ["raw", 2]],
    "agg": lambda: ["cfn", "COALESCE", [C(4), ["raw", 0]]],
    "tuple": lambda: ["tuple", [C(4), C(5)]],
    "subq": lambda: ["subq", {"cls": "inherit", "sources": {}, "steps": [["from_", [["py", "g"]]], ["select", [["py", "c0"]]], ["limit", [["py", 1]]]]}],
}


def skeleton(kind, a=None, b=None, c=None):
    """operator node of the given kind with plain column operands where not supplied"""
    a = a if a is not None else C(1)
    b = b if b is not None else C(2)
    c = c if c is not None else C(3)
    if kind in ARITH or kind in CMPS or kind in BOOLS:
        return [kind, a, b]
    if kind in MATCHES:
        return [kind, a, b]
    if kind in ("neg", "not", "isnull"):
        return [kind, a]
    if kind in ("in", "notin"):
        return [kind, a, [b, c]]
    if kind == "between":
        return ["between", a, b, c]
    if kind == "bitand":
        return ["bitand", a, 5]
    raise HarnessError(kind)


PARENT_POS = {}
for _k in ARITH + CMPS + BOOLS + MATCHES:
    PARENT_POS[_k] = (0, 1)
for _k in ("neg", "not", "isnull", "bitand"):
    PARENT_POS[_k] = (0,)
for _k in ("in", "notin"):
    PARENT_POS[_k] = (0, 1)
PARENT_POS["between"] = (0, 1, 2)
OPKINDS = tuple(PARENT_POS)
CHILD_KINDS = OPKINDS + tuple(LEAVES)


def kind_of(node):
    k = node[0]
    if k in ("vw", "raw"):
        v = node[1][1] if k == "vw" else node[1]
        if isinstance(v, str):
            return "str"
        if isinstance(v, (int, float)) and not isinstance(v, bool):
            if v < 0:
                return "negfloat" if isinstance(v, float) else "negint"
            return "zero" if v == 0 else "posint"
        return "lit"
    if k == "cfn":
        return "fn"
    return k


def is_crit(node):
    return kind_of(node) in CRIT_KINDS


def make_child(kind):
    return LEAVES[kind]() if kind in LEAVES else skeleton(kind, C(4), C(5), C(0))


def place(parent, pos, child):
    args = [None, None, None]
    args[pos] = child
    return skeleton(parent, *args)


def children(node):
    """operand sub-nodes of an operator node as (position, node)"""
    k = node[0]
    if k in ARITH or k in CMPS or k in BOOLS or k in MATCHES or k in ("pow", "mod"):
        return [(0, node[1]), (1, node[2])]
    if k in ("neg", "not", "isnull", "notnull", "bitand"):
        return [(0, node[1])]
    if k in ("in", "notin"):
        out = [(0, node[1])]
        if isinstance(node[2], list) and node[2] and not isinstance(node[2][0], str):
            out += [(1, x) for x in node[2]]
        return out
    if k == "between":
        return [(0, node[1]), (1, node[2]), (2, node[3])]
    if k == "case":
        out = []
        for w, t in node[1]:
            out += [(0, w), (1, t)]
        if len(node) > 2 and node[2] is not None:
            out.append((2, node[2]))
        return out
    if k == "cfn":
        return [(i, a) for i, a in enumerate(node[2])]
    if k == "tuple":
        return [(i, a) for i, a in enumerate(node[1])]
    return []


def replace_child(node, idx, new):
    """copy of node with the idx-th entry of children(node) replaced"""
    import copy

    n = copy.deepcopy(node)
    k = n[0]
    if k in ("in", "notin"):
        if idx == 0:
            n[1] = new
        else:
            n[2][idx - 1] = new
        return n
    if k == "case":
        flat = []
        for wi, (w, t) in enumerate(n[1]):
            flat += [("w", wi), ("t", wi)]
        if idx < len(flat):
            which, wi = flat[idx]
            n[1][wi][0 if which == "w" else 1] = new
        else:
            n[2] = new
        return n
    if k == "cfn":
        n[2][idx] = new
        return n
    if k == "tuple":
        n[1][idx] = new
        return n
    n[1 + idx] = new
    return n


# ---- built tree -> oracle tree ---------------------------------------------------------------------------------


def numtree(v):
    key = exprparse._numkey(repr(abs(v)))
    t = ("num", key)
    return ("neg", t) if v < 0 else t


def built_tree(node):
    k = node[0]
    if k == "col":
        return ("col", node[2])
    if k in ("vw", "raw"):
        v = node[1][1] if k == "vw" else node[1]
        if v is None:
            return ("null",)
        if isinstance(v, bool):
            return ("bool", "TRUE" if v else "FALSE")
        if isinstance(v, str):
            return ("str", v)
        return numtree(v)
    if k == "null":
        return ("null",)
    if k in ("neg", "not", "isnull"):
        return (k, built_tree(node[1]))
    if k == "notnull":
        return ("not", ("isnull", built_tree(node[1])))
    if k in ARITH or k in CMPS or k in BOOLS or k in MATCHES:
        return (k, built_tree(node[1]), built_tree(node[2]))
    if k in ("pow", "mod"):
        return ("call", k.upper(), (built_tree(node[1]), built_tree(node[2])))
    if k in ("in", "notin"):
        c = node[2]
        if isinstance(c, list) and c and isinstance(c[0], str):
            items = (("subq",),)
        else:
            items = tuple(built_tree(x) for x in c)
        return (k, built_tree(node[1]), items)
    if k == "between":
        return ("between", built_tree(node[1]), built_tree(node[2]), built_tree(node[3]))
    if k == "bitand":
        return ("bitand", built_tree(node[1]), numtree(node[2]))
    if k == "case":
        return ("case", tuple((built_tree(w), built_tree(t)) for w, t in node[1]), built_tree(node[2]) if len(node) > 2 and node[2] is not None else None)
    if k == "cfn":
        return ("call", node[1].upper(), tuple(built_tree(a) for a in node[2]))
    if k == "tuple":
        return ("tuple", tuple(built_tree(a) for a in node[1]))
    if k == "subq":
        return ("subq",)
    raise HarnessError("built_tree: %r" % (k,))


def ref_sql(node):
    """fully parenthesised SQLite transcription; returns None when the tree is not SQLite-evaluable"""
    k = node[0]
    if k == "col":
        return '"%s"' % node[2]
    if k in ("vw", "raw"):
        v = node[1][1] if k == "vw" else node[1]
        if v is None:
            return "NULL"
        if isinstance(v, bool):
            return "1" if v else "0"
        if isinstance(v, str):
            return lex.enc_str(v, "sqlite")
        return "(%r)" % v if v < 0 else repr(v)
    if k == "null":
        return "NULL"
    parts = []
    for _, ch in children(node):
        s = ref_sql(ch)
        if s is None:
            return None
        parts.append(s)
    if k == "neg":
        return "(- %s)" % parts[0]
    if k == "not":
        return "(NOT %s)" % parts[0]
    if k == "isnull":
        return "(%s IS NULL)" % parts[0]
    if k == "notnull":
        return "(NOT (%s IS NULL))" % parts[0]
    if k in SQLOP:
        return "(%s %s %s)" % (parts[0], SQLOP[k], parts[1])
    if k in ("pow", "mod"):
        return "%s(%s,%s)" % (k.upper(), parts[0], parts[1])
    if k in ("in", "notin"):
        if len(parts) < 2:
            return None
        return "(%s %sIN (%s))" % (parts[0], "NOT " if k == "notin" else "", ",".join(parts[1:]))
    if k == "between":
        return "(%s BETWEEN %s AND %s)" % tuple(parts)
    if k == "bitand":
        return "(%s & %d)" % (parts[0], node[2])
    if k == "case":
        s = "CASE"
        i = 0
        for _ in node[1]:
            s += " WHEN %s THEN %s" % (parts[i], parts[i + 1])
            i += 2
        if len(node) > 2 and node[2] is not None:
            s += " ELSE %s" % parts[i]
        return s + " END"
    if k == "cfn":
        return "%s(%s)" % (node[1], ",".join(parts))
    return None  # xor, tuple, subq


# ---- engine grid --------------------------------------------------------------------------------------------------

_con = None


def grid():
    global _con
    if _con is None:
        _con = sqlite3.connect(":memory:")
        _con.execute("CREATE TABLE g (c0,c1,c2,c3,c4,c5)")
        vals = [-2, -1, 0, 1, 2, 3, 7, None]
        rows = []
        n = 0
        for tup in itertools.product(vals, repeat=6):
            n += 1
            if n % 997 == 0 or n < 40:
                rows.append(tup)
        rows += [(1, 2, 3, 4, 5, 6), (6, 5, 4, 3, 2, 1), (0, 0, 0, 0, 0, 0), (None,) * 6, (-1,) * 6, (2, 2, 2, 2, 2, 2), ("s", "t", "s", 1, "s", 0)]
        _con.executemany("INSERT INTO g VALUES (?,?,?,?,?,?)", rows)
    return _con


def evaluate(sql):
    try:
        return ("ok", grid().execute("SELECT %s FROM g ORDER BY rowid" % sql).fetchall())
    except sqlite3.Error as e:
        return ("err", str(e))


def _same_values(ra, rb):
    """row lists equal; floats with a relative tolerance (re-association inside a +/- or * chain may round differently)"""
    if len(ra) != len(rb):
        return False
    for (x,), (y,) in zip(ra, rb):
        if isinstance(x, float) or isinstance(y, float):
            if x is None or y is None:
                if x is not y:
                    return False
            elif abs(x - y) > 1e-9 * max(1.0, abs(x), abs(y)):
                return False
        elif x != y:
            return False
    return True


# ---- the check ----------------------------------------------------------------------------------------------------


def render(node, ctxname):
    term = prog.build_program({"cls": ctxname, "root": "term", "term": node})
    # expressions are rendered the way a WHERE clause / select list renders them (subquery=True: nested queries get brackets)
    return term.get_sql(prog.sql_context(ctxname).copy(subquery=True))


def fails(node, ctxname):
    """-> (failure kind, detail) or None"""
    want = exprparse.nf(built_tree(node))
    sql = render(node, ctxname)
    toks = lex.lex(sql, ctxname)
    try:
        got = exprparse.nf(exprparse.parse(toks))
    except exprparse.ParseError as e:
        msg = str(e)
        kind = "fusion" if msg.startswith("fusion") else "unparsable"
        return kind, "%s -> %r (%s)" % (node, sql, msg)
    if got != want:
        return "regroup", "%s -> %r parses as %r, built %r" % (node, sql, got, want)
    if ctxname == "sqlite":
        ref = ref_sql(node)
        if ref is not None:
            a = evaluate(ref)
            if a[0] == "ok":
                b = evaluate(sql)
                if b[0] == "err":
                    return "engine_reject", "%r: %s (reference %r evaluates)" % (sql, b[1], ref)
                if not _same_values(a[1], b[1]):
                    return "value", "%r evaluates differently from %r" % (sql, ref)
    return None


def selftest_parser(node):
    ref = ref_sql(node)
    if ref is None:
        return
    got = exprparse.nf(exprparse.parse(lex.lex(ref, "sqlite")))
    want = exprparse.nf(built_tree(node))
    if got != want:
        raise HarnessError("reference parser disagrees with transcription %r: %r vs %r" % (ref, got, want))


def subtrees(node, out):
    for _, ch in children(node):
        subtrees(ch, out)
    if children(node):
        out.append(node)
    return out


def analyse(node, ctxname):
    """all minimal failing subtrees -> [(sig, detail)]"""
    res = []
    seen = set()
    failing_ids = []
    for sub in subtrees(node, []):
        # minimal: none of its operator children fails
        if any(id(ch) in failing_ids for _, ch in children(sub)):
            failing_ids.append(id(sub))
            continue
        f = fails(sub, ctxname)
        if f is None:
            continue
        failing_ids.append(id(sub))
        # canonicalise: replace operands by plain columns while the failure persists
        cur = sub
        kinds = []
        for idx, (pos, ch) in enumerate(children(sub)):
            if kind_of(ch) == "col":
                continue
            if cur[0] in BOOLS and pos == 0:
                cand = replace_child(cur, idx, C(idx + 1))
            else:
                cand = replace_child(cur, idx, C(idx + 1))
            try:
                f2 = fails(cand, ctxname)
            except Exception:
                f2 = None
            if f2 is not None and f2[0] == f[0]:
                cur = cand
        f = fails(cur, ctxname) or f
        kinds = ["%d:%s" % (pos, kind_of(ch)) for pos, ch in children(cur) if kind_of(ch) != "col"]
        sig = mksig(f[0], cur[0], ",".join(kinds) or "-")
        fam = family(cur)
        if fam:
            sig = fam
        elif f[0] == "regroup" and cur[0] == "mul" and _leftmost_factor(cur[2])[0] == "div":
            # same root cause as a*(b/c): a right operand of * that starts with a division is not bracketed
            sig = mksig("regroup", "mul", "1:div")
        if sig not in seen:
            seen.add(sig)
            res.append((sig, f[1]))
    return res


CRIT_CHILD = CMPS + MATCHES + BOOLS + ("not", "isnull", "in", "notin", "between")
PARENT_GROUP = {}
for _k in ARITH:
    PARENT_GROUP[_k] = "arith"
for _k in CMPS + MATCHES:
    PARENT_GROUP[_k] = "cmp"
for _k in ("neg", "isnull", "between", "bitand"):
    PARENT_GROUP[_k] = _k
PARENT_GROUP["in"] = PARENT_GROUP["notin"] = "in"


def family(node):
    """One root cause, one signature: a criterion (comparison / boolean / IS NULL / IN / BETWEEN / NOT) used as the operand
    of a non-boolean operator is never bracketed by the library."""
    g = PARENT_GROUP.get(node[0])
    if g is None:
        return None
    bad = [kind_of(ch) for _, ch in children(node) if kind_of(ch) != "col"]
    crit = [b for b in bad if b in CRIT_CHILD]
    if crit:
        # NOT as an operand is a case of its own: its un-bracketed text (NOT "foo"='bar') is pinned by the repository's tests
        return mksig("crit_operand", g, "not") if all(b == "not" for b in crit) else mksig("crit_operand", g)
    return None


def _leftmost_factor(node):
    while node[0] == "mul":
        node = node[1]
    return node


def depth(node):
    ch = children(node)
    return 1 + max((depth(c) for _, c in ch), default=0) if ch else 0


def nontrivial(node):
    if depth(node) < 2:
        return False
    for sub in subtrees(node, []):
        for _, ch in children(sub):
            if children(ch) and (ch[0] != sub[0] or sub[0] in ("sub", "div") + CMPS):
                return True
    return False


def _valid_node(node):
    if not isinstance(node, list) or not node:
        return False
    k = node[0]
    if k == "col":
        return len(node) == 3 and node[1] is None and node[2] in ("c0", "c1", "c2", "c3", "c4", "c5")
    if k == "subq":
        return node == LEAVES["subq"]()
    if k in ("vw", "raw"):
        v = node[1][1] if k == "vw" else node[1]
        return isinstance(v, (int, float, str)) or v is None
    if k == "null":
        return True
    try:
        ch = children(node)
        if k in BOOLS and not is_crit(node[1]):
            return False
        if k in ("in", "notin") and len(ch) < 2:
            return False
        if k == "case" and not node[1]:
            return False
        if k == "cfn" and (not node[2] or node[1] not in ("ABS", "LENGTH", "COALESCE")):
            return False
        if k == "tuple" and len(node[1]) < 2:
            return False
        if k == "bitand" and not isinstance(node[2], int):
            return False
        if not ch:
            return False
        raws = [c for _, c in ch if isinstance(c, list) and c and c[0] == "raw"]
        if raws and (k not in ARITH or len(raws) > 1):
            return False  # a plain Python number is an operand only next to a term (5 - term: the reflected operators)
        built_tree(node)
    except Exception:
        return False
    return all(_valid_node(c) for _, c in ch)


def valid_case(case):
    return isinstance(case, dict) and case.get("ctx") in CTXS and _valid_node(case.get("expr"))


def check_case(case):
    return analyse(case["expr"], case["ctx"])


def _record(col, node, ctxname, classes=()):
    case = {"expr": node, "ctx": ctxname}
    sample = None
    nt = nontrivial(node)
    if nt and len(col.samples) < col.MAX_SAMPLES:
        try:
            sample = {"expr": node, "ctx": ctxname, "sql": render(node, ctxname)}
        except Exception:
            sample = None
    col.case(case, nt, classes=("ctx:" + ctxname,) + tuple(classes), sample=sample)
    selftest_parser(node)
    for sig, detail in analyse(node, ctxname):
        col.violation(sig, case, detail)


# ---- generators ---------------------------------------------------------------------------------------------------


def leaf_st():
    return st.one_of(
        st.integers(0, 5).map(C), st.integers(0, 5).map(C),
        st.sampled_from([1, 2, 7, 0, -1, -3, 10]).map(lambda v: ["vw", ["raw", v]]),
        st.sampled_from([-1.5, 2.5]).map(lambda v: ["vw", ["raw", v]]),
        st.sampled_from(["s", "t%"]).map(lambda v: ["vw", ["raw", v]]),
        st.just(["null"]),
    )


def tree_st(max_leaves=12):
    def extend(ch):
        crit = ch.filter(is_crit)
        return st.one_of(
            st.tuples(st.sampled_from(ARITH), ch, ch).map(list),
            st.tuples(st.sampled_from(ARITH), ch, ch).map(list),
            st.tuples(st.sampled_from(CMPS), ch, ch).map(list),
            st.tuples(st.sampled_from(MATCHES), ch, ch).map(list),
            st.tuples(st.sampled_from(BOOLS), crit, ch).map(list),
            st.tuples(st.sampled_from(("and", "or")), crit, crit).map(list),
            st.tuples(st.sampled_from(("neg", "not", "isnull")), ch).map(list),
            st.tuples(st.sampled_from(("in", "notin")), ch, st.lists(ch, min_size=1, max_size=3)).map(list),
            st.tuples(st.just("between"), ch, ch, ch).map(list),
            st.tuples(st.just("bitand"), ch, st.sampled_from([1, 5, 12])).map(list),
            st.tuples(st.just("case"), st.lists(st.tuples(ch, ch).map(list), min_size=1, max_size=2), st.one_of(st.none(), ch)).map(list),
            st.tuples(st.just("cfn"), st.sampled_from(["ABS", "LENGTH"]), st.tuples(ch).map(list)).map(list),
            st.tuples(st.just("cfn"), st.just("COALESCE"), st.lists(ch, min_size=2, max_size=3)).map(list),
            st.tuples(st.sampled_from(("pow", "mod")), ch, st.sampled_from([2, 3]).map(lambda v: ["raw", v])).map(list),
        )

    return st.recursive(leaf_st(), extend, max_leaves=max_leaves).filter(lambda n: bool(children(n)))


def triples():
    for parent in OPKINDS:
        for pos in PARENT_POS[parent]:
            for child in CHILD_KINDS:
                if parent in BOOLS and pos == 0 and child not in CRIT_KINDS and child not in ("fn",):
                    continue
                if child == "subq" and pos == 0 and parent in ("add", "sub", "mul", "eq", "ne"):
                    continue  # QueryBuilder overloads + - * as set operations and ==/!= as alias comparison
                yield parent, pos, child


def reflected_nodes():
    """plain Python numbers as the LEFT operand (5 - term, -3 * term ...: __radd__/__rsub__/__rmul__/__rtruediv__) over every kind of right operand,
    and as the right operand (term - 5: wrap_constant)"""
    rights = [C(0), ["vw", ["raw", -3]], ["neg", C(1)]] + [skeleton(op, C(4), C(5)) for op in ARITH] + [skeleton(op, ["vw", ["raw", -2]], C(5)) for op in ("mul", "div")]
    for op in ARITH:
        for num in (7, -3, 0, 2.5, -1.5):
            for r in rights:
                yield [op, ["raw", num], r]
                yield [op, r, ["raw", num]]
                # one level up: the reflected expression as an operand itself
                for outer in ARITH:
                    yield [outer, C(2), [op, ["raw", num], r]]
                    yield [outer, [op, ["raw", num], r], C(2)]


def run_fuzz_shard(shard):
    """coverage-guided layer (Atheris): bytes -> structured case, the same oracle inside the target"""
    from pbt import fuzz

    _, tier, sd, k = shard
    col = Collector()
    seeds = [] if k % 2 == 0 else [bytes(range(1, 65)), b"\x02" * 40, b"\x07\x01\x09" * 20]
    found, runs, note = fuzz.campaign("c06", 30000, sd, seeds)
    col.evaluations += runs
    col.count("atheris_executions", runs)
    col.notes["atheris"] = [note + (" (empty corpus)" if not seeds else " (seeded corpus)")]
    for f in found:
        col.violation(f["sig"], f["case"], f["detail"])
    return col


def shards(tier, sd):
    out = [("triples", tier, sd, c) for c in CTXS] + [("reflected", tier, sd, c) for c in CTXS]
    n = 6 if tier == "quick" else 32
    for k in range(n):
        out.append(("random", tier, sd * 1000 + k, None))
    # depth-3 layer (parent(child(grandchild)) over the arithmetic / boolean operators and negative literals): cheap, so it runs in both tiers
    for k in range(16):
        out.append(("depth3", tier, sd, k))
    if tier == "thorough":
        out += [("fuzz", tier, sd * 1000 + 500 + k, k) for k in range(4)]
    return out


def run_shard(shard):
    if shard[0] == "fuzz":
        return run_fuzz_shard(shard)
    kind, tier, sd, arg = shard
    col = Collector()
    if kind == "triples":
        n = 0
        for parent, pos, child in triples():
            node = place(parent, pos, make_child(child))
            _record(col, node, arg, classes=("triple",))
            n += 1
        col.notes["triples_enumerated"] = n
        col.exhaustive = True
        return col
    if kind == "reflected":
        for node in reflected_nodes():
            _record(col, node, arg, classes=("reflected",))
        col.exhaustive = True
        return col
    if kind == "depth3":
        # all trees parent(child(grandchild)) over arithmetic and boolean operators, sliced over 16 shards
        ops = ARITH + ("neg",) + ("and", "or") + ("eq", "lt") + ("not",)
        n = 0
        for a in ops:
            for pa in PARENT_POS[a]:
                for b in ops:
                    for pb in PARENT_POS[b]:
                        for c in ops + ("negint", "negfloat", "col"):
                            n += 1
                            if n % 16 != arg:
                                continue
                            try:
                                inner = place(b, pb, make_child(c))
                                if a in BOOLS and pa == 0 and not is_crit(inner):
                                    continue
                                if b in BOOLS and pb == 0 and not is_crit(make_child(c)):
                                    continue
                                node = place(a, pa, inner)
                            except HarnessError:
                                continue
                            _record(col, node, CTXS[n % 6], classes=("depth3",))
        return col

    nex = 500 if tier == "quick" else 6000

    @seed(sd)
    @settings(max_examples=nex, database=None, deadline=None, suppress_health_check=list(HealthCheck), report_multiple_bugs=False)
    @given(tree_st(), st.sampled_from(CTXS))
    def prop(node, ctxname):
        _record(col, node, ctxname, classes=("random", "depth:%d" % min(depth(node), 6)))

    prop()
    return col
