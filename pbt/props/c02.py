"""C02 - Rendering is a pure, repeatable, process-independent function.

(a) no mutation: the structural snapshot (a __dict__ walk, independent of get_sql) is the same before and after a generated
    history of render operations;  (b) repeatability: the k-th result of an operation equals the first;  (c) process
    independence: child interpreters with other PYTHONHASHSEED values render the same batch identically;  (d) threads:
    8 threads render one shared object, every result equals the sequential baseline;  (e) owned schedule: a harness-defined
    term re-enters a full render of the enclosing object from inside its own get_sql (term-granularity interleaving).
"""
from __future__ import annotations

import json
import os
import subprocess
import sys
import threading

from hypothesis import HealthCheck, given, seed, settings, strategies as st

from pbt import gen, hist, prog, snap
from pbt.core import VERIF_DIR, Collector, HarnessError, mksig
from pbt.props import c01

ID = "C02"
RULE = ("renderable objects of every family (plus feature-rich statements: UPDATE..JOIN, FOR UPDATE OF several names, star tables, CTE, set "
        "operations, subqueries, upserts, RETURNING) x generated histories of render operations {str, repr, get_sql under six contexts inline / fresh "
        "parameterizer / caller-owned parameterizer, get_parameterized_sql, hash, ==, set insertion}; batches re-rendered in child interpreters under "
        "PYTHONHASHSEED 0..3(7) and in fresh interpreters that render the six class contexts in three other orders (render-history independence); 8-thread stress; re-entrancy probe. Non-trivial = statement with a join, CTE, set operation, subquery, star, FOR UPDATE "
        "OF or upsert and a history with >= 2 contexts and a repeated operation; distinct = distinct (object, history).")
ASSUMPTIONS = [
    "thread interleavings are sampled (stress) and owned only at term granularity (re-entrancy probe); bytecode-level schedules are not enumerated",
    "a caller-supplied Parameterizer is the only object a render may write to",
    "exception messages are not renderings; operations that raise are compared by exception type",
]

CTXS = prog.CLS_NAMES
KINDS = ["str", "repr", "sql", "par", "gps", "hash", "eqtwin", "setins", "owned"]

# ---- re-entrancy probe -------------------------------------------------------------------------------------------
PROBE_STATE = {"armed": False, "busy": False, "outer": None, "ctx": None, "inner": []}


def _probe_cls():
    from pypika_tortoise.terms import Term

    class Probe(Term):
        def get_sql(self, ctx):
            st_ = PROBE_STATE
            if st_["armed"] and not st_["busy"] and st_["outer"] is not None:
                st_["busy"] = True
                try:
                    try:
                        st_["inner"].append(st_["outer"].get_sql(st_["ctx"]()))
                    except Exception as e:
                        st_["inner"].append("EXC:" + type(e).__name__)
                finally:
                    st_["busy"] = False
            return "0"

    return Probe


_PROBE = None


def _mk_probe(node, env):
    global _PROBE
    if _PROBE is None:
        _PROBE = _probe_cls()
    return _PROBE()


prog.EXTRA_NODES["probe"] = _mk_probe

RICH = [
    {"cls": "C", "sources": {}, "steps": [["from_", [["src", "T"]]], ["select", [["col", "T", "a"]]],
                                          ["where", [["call", ["col", "T", "c"], "has_any_keys", [["pyset", [["raw", "alpha"], ["raw", "beta"], ["raw", "gamma"], ["raw", "delta"], ["raw", "eps"]]]]]]]]},
    {"cls": "C", "sources": {}, "steps": [["from_", [["src", "T"]]], ["select", [["col", "T", "a"]]],
                                          ["rollup", [["pyset", [["col", "T", "a"], ["col", "T", "b"], ["col", "T", "c"], ["col", "T", "id"]]]]],
                                          ["where", [["call", ["col", "T", "c"], "isin", [["pyset", [["interval", {"days": 3}], ["interval", {"days": 1}], ["interval", {"hours": 5}], ["interval", {"weeks": 1}], ["interval", {"minutes": 7}]]]]]]]]},
    # a set given where the API takes "list | tuple | set": the same construction in another process must give the same text
    {"cls": "C", "sources": {}, "steps": [["from_", [["src", "T"]]], ["select", [["col", "T", "a"]]],
                                          ["where", [["call", ["col", "T", "b"], "isin", [["pyset", [["raw", "new"], ["raw", "open"], ["raw", "held"], ["raw", "done"], ["raw", "void"]]]]]]],
                                          ["where", [["call", ["col", "T", "a"], "notin", [["pyset", [["col", "T", "b"], ["col", "T", "c"], ["col", "T", "id"], ["col", "U", "a"], ["col", "U", "b"], ["col", "U", "c"], ["col", "U", "id"], ["col", "V", "b"], ["col", "V", "c"]]]]]]]]},
    # a row of INSERT / REPLACE given as a set (the code admits "list | tuple | set" there too)
    {"cls": "C", "sources": {}, "steps": [["into", [["src", "T"]]], ["insert", [["pyset", [["raw", "north"], ["raw", "south"], ["raw", "east"], ["raw", "west"], ["raw", "up"], ["raw", "down"]]]]]]},
    # further places that take a collection: FOR UPDATE OF names, a frozenset as a row / in ROLLUP, a set of tuples that hold terms
    {"cls": "C", "sources": {}, "steps": [["from_", [["src", "T"]]], ["select", [["col", "T", "a"]]], ["for_update", [], {"of": ["pyset", [["raw", "alpha"], ["raw", "beta"], ["raw", "gamma"], ["raw", "delta"], ["raw", "eps"]]]}]]},
    {"cls": "C", "sources": {}, "steps": [["into", [["src", "T"]]], ["insert", [["pyfrozenset", [["raw", "north"], ["raw", "south"], ["raw", "east"], ["raw", "west"], ["raw", "up"]]]]]]},
    {"cls": "C", "sources": {}, "steps": [["from_", [["src", "T"]]], ["select", [["col", "T", "a"]]], ["rollup", [["pyfrozenset", [["col", "T", "a"], ["col", "T", "b"], ["col", "T", "c"], ["col", "T", "id"]]]]],
                                          ["where", [["call", ["tuple", [["col", "T", "a"], ["col", "T", "b"]]], "isin", [["pyset", [["pytuple", [["col", "U", "a"], ["raw", 1]]], ["pytuple", [["col", "U", "b"], ["raw", 2]]], ["pytuple", [["col", "U", "c"], ["raw", 3]]], ["pytuple", [["col", "U", "id"], ["raw", 4]]], ["pytuple", [["col", "V", "b"], ["raw", 5]]]]]]]]]]},
    # literals whose text depends on the dialect (MySQL doubles backslashes; booleans; JSON documents): a process-wide memo of rendered
    # literals would make their text depend on which class context rendered them first
    {"cls": "C", "sources": {}, "steps": [["from_", [["src", "T"]]], ["select", [["col", "T", "a"], ["vw", ["raw", "sel\\ect"]]]], ["where", [["eq", ["col", "T", "a"], ["raw", "C:\\tmp\\new"]]]],
                                          ["where", [["like", ["col", "T", "b"], ["raw", "100\\%"]]]], ["where", [["eq", ["col", "T", "c"], ["raw", True]]]],
                                          ["where", [["eq", ["col", "T", "id"], ["pyv", "json", {"k": "q\"uote"}]]]]]},
    {"cls": "C", "sources": {}, "steps": [["update", [["src", "T"]]], ["join", [["src", "U"], ["enum", "JoinType", "inner"]], {}, ["on", [["eq", ["col", "T", "a"], ["col", "U", "a"]]]]], ["set", [["col", "T", "b"], ["col", "U", "b"]]], ["where", [["gt", ["col", "U", "c"], ["raw", 1]]]]]},
    {"cls": "C", "sources": {}, "steps": [["from_", [["src", "T"]]], ["select", [["star", "T"], ["col", "T", "a"]]], ["join", [["src", "U"], ["enum", "JoinType", "left"]], {}, ["on", [["eq", ["col", "T", "a"], ["col", "U", "a"]]]]], ["select", [["star", "U"]]], ["for_update", [], {"of": ["pytuple", [["py", "t1"], ["py", "t2"], ["py", "zz"], ["py", "aa"]]]}]]},
    {"cls": "C", "sources": {}, "steps": [["with_", [["q", {"cls": "inherit", "sources": {}, "steps": [["from_", [["src", "U"]]], ["select", [["col", "U", "a"]]], ["where", [["eq", ["col", "U", "b"], ["raw", "v"]]]]]}], ["py", "cte1"]]], ["from_", [["src", "T"]]], ["select", [["col", "T", "a"], ["as", ["fn", "Sum", [["col", "T", "b"]]], "s"]]], ["groupby", [["col", "T", "a"]]], ["having", [["gt", ["fn", "Sum", [["col", "T", "b"]]], ["raw", 3]]]], ["orderby", [["col", "T", "a"]], {"order": ["enum", "Order", "desc"]}], ["limit", [["py", 5]]], ["offset", [["py", 2]]]]},
    {"cls": "C", "sources": {}, "steps": [["from_", [["q", {"cls": "inherit", "sources": {}, "steps": [["from_", [["src", "U"]]], ["select", [["col", "U", "a"], ["raw", 7]]]]}]]], ["select", [["py", "a"]]], ["where", [["in", ["col", "T", "a"], ["q", {"cls": "inherit", "sources": {}, "steps": [["from_", [["src", "V"]]], ["select", [["col", "V", "a"]]]]}]]]], ["union", [["q", {"cls": "inherit", "sources": {}, "steps": [["from_", [["src", "V"]]], ["select", [["col", "V", "b"]]]]}]]], ["orderby", [["py", "a"]]], ["limit", [["py", 3]]]]},
    {"cls": "C", "sources": {}, "steps": [["into", [["src", "T"]]], ["columns", [["py", "id"], ["py", "a"]]], ["insert", [["raw", 1], ["raw", "x"]]], ["on_conflict", [["py", "id"]]], ["do_update", [["py", "a"], ["raw", "y"]]], ["where", [["eq", ["col", "T", "a"], ["raw", "z"]]]]]},
    {"cls": "postgresql", "sources": {}, "steps": [["update", [["src", "T"]]], ["set", [["py", "a"], ["raw", 1]]], ["where", [["eq", ["col", "T", "id"], ["raw", 5]]]], ["returning", [["col", "T", "id"], ["py", "a"]]]]},
    {"cls": "C", "sources": {}, "steps": [["from_", [["src", "T"]]], ["delete", []], ["where", [["in", ["col", "T", "a"], [["raw", 1], ["raw", 2]]]]], ["orderby", [["col", "T", "a"]]], ["limit", [["py", 1]]]]},
    # several items in every multi-valued slot: aggregate FILTER conditions, window PARTITION BY / ORDER BY, GROUP BY, CTEs, upsert targets/updates
    {"cls": "C", "sources": {}, "steps": [["from_", [["src", "T"]]], ["select", [["col", "T", "a"],
        ["as", ["call", ["call", ["fn", "Sum", [["col", "T", "b"]]], "filter", [["in", ["col", "T", "c"], [["raw", "eu"], ["raw", "us"]]], ["gt", ["col", "T", "b"], ["raw", 10]]]], "filter", [["eq", ["col", "T", "id"], ["raw", "paid"]], ["lt", ["col", "T", "a"], ["raw", 100]]]], "s"],
        ["as", ["call", ["call", ["an", "Sum", [["col", "T", "b"]]], "over", [["col", "T", "a"], ["col", "T", "c"], ["col", "T", "id"]]], "orderby", [["col", "T", "b"], ["col", "T", "c"], ["col", "T", "id"]]], "w"]]],
        ["groupby", [["col", "T", "a"], ["col", "T", "c"], ["col", "T", "id"]]], ["having", [["and", ["gt", ["fn", "Max", [["col", "T", "b"]]], ["raw", 1]], ["lt", ["fn", "Min", [["col", "T", "b"]]], ["raw", 9]]]]]]},
    {"cls": "C", "sources": {}, "steps": [["with_", [["q", {"cls": "inherit", "sources": {}, "steps": [["from_", [["src", "U"]]], ["select", [["col", "U", "a"]]]]}], ["py", "c1"]]],
        ["with_", [["q", {"cls": "inherit", "sources": {}, "steps": [["from_", [["src", "V"]]], ["select", [["col", "V", "b"]]]]}], ["py", "c2"]]],
        ["from_", [["src", "T"]]], ["from_", [["src", "S"]]], ["join", [["src", "U"], ["enum", "JoinType", "left"]], {}, ["on", [["eq", ["col", "T", "a"], ["col", "U", "a"]]]]],
        ["join", [["src", "Y"], ["enum", "JoinType", "inner"]], {}, ["using", [["py", "id"], ["py", "a"]]]], ["select", [["star", "T"], ["star", "U"], ["col", "S", "c"]]],
        ["where", [["in", ["col", "T", "a"], [["raw", 3], ["raw", 1], ["raw", 2], ["raw", "z"], ["raw", "a"]]]]], ["force_index", [["py", "i1"], ["py", "i2"], ["py", "i3"]]], ["use_index", [["py", "u1"], ["py", "u2"]]]]},
    {"cls": "C", "sources": {}, "steps": [["into", [["src", "T"]]], ["columns", [["py", "id"], ["py", "a"], ["py", "b"]]], ["insert", [["pytuple", [["raw", 1], ["raw", "x"], ["raw", 2]]], ["pytuple", [["raw", 3], ["raw", "y"], ["raw", 4]]]]],
        ["on_conflict", [["py", "id"], ["py", "a"], ["py", "b"]]], ["do_update", [["py", "a"], ["raw", "y"]]], ["do_update", [["py", "b"]]], ["do_update", [["py", "c"], ["raw", 5]]], ["where", [["and", ["eq", ["col", "T", "a"], ["raw", "z"]], ["gt", ["col", "T", "b"], ["raw", 0]]]]]]},
]


@st.composite
def cases(draw):
    mode = draw(st.sampled_from(["rich", "rich", "family", "family", "family"]))
    if mode == "rich":
        r = json.loads(json.dumps(draw(st.sampled_from(RICH))))
        if r["cls"] == "C":
            r["cls"] = draw(st.sampled_from(CTXS))
        family = "qb:" + r["cls"]
        extra = draw(st.lists(hist.one_of_steps(hist.menu(family)), max_size=2))
        r["steps"] = r["steps"] + [e for e in extra if hist.result_family(family, e) == family or True]
        family = "rich"
    else:
        family = draw(st.sampled_from(hist.FAMILIES))
        r = draw(hist.root(family))
    ops = draw(st.lists(st.tuples(st.sampled_from(KINDS), st.sampled_from(CTXS)).map(list), min_size=3, max_size=10))
    return {"family": family, "root": r, "ops": ops}


def do_op(o, kind, ctxname, owned, twin):
    from pypika_tortoise import Parameterizer

    ctx = prog.sql_context(ctxname)
    if kind == "str":
        return snap._try(lambda: str(o))
    if kind == "repr":
        r = snap._try(lambda: repr(o))
        return r if " at 0x" not in str(r) else "<addr-repr>"
    if kind == "sql":
        return snap._try(lambda: o.get_sql(ctx))
    if kind == "par":
        def f():
            p = Parameterizer()
            return [o.get_sql(ctx.copy(parameterizer=p)), [snap.val_repr(v) for v in p.values]]
        return snap._try(f)
    if kind == "gps":
        def f():
            s, v = o.get_parameterized_sql(ctx)
            return [s, [snap.val_repr(x) for x in v]]
        if not hasattr(type(o), "get_parameterized_sql"):
            return "n/a"
        return snap._try(f)
    if kind == "hash":
        def f():
            return hash(o) == hash(o)
        return snap._try(f)
    if kind == "eqtwin":
        def f():
            r = (o == twin)
            return type(r).__name__ if not isinstance(r, bool) else r
        return snap._try(f)
    if kind == "setins":
        def f():
            s = {o}
            return o in s
        return snap._try(f)
    if kind == "owned":
        def f():
            before = len(owned.values)
            o.get_sql(ctx.copy(parameterizer=owned))
            added = [snap.val_repr(v) for v in owned.values[before:]]
            p = Parameterizer()
            o.get_sql(ctx.copy(parameterizer=p))
            return ["owned-grew-by-fresh", added == [snap.val_repr(v) for v in p.values]]
        return snap._try(f)
    raise HarnessError(kind)


def check(case):
    from pypika_tortoise import Parameterizer

    out = []
    try:
        o = hist.build_root(case["root"])
        twin = hist.build_root(case["root"])
    except Exception:
        return out
    cname = type(o).__name__
    before = snap.struct_snapshot(o)
    owned = Parameterizer()
    first = {}
    for kind, ctxname in case["ops"]:
        r = do_op(o, kind, ctxname, owned, twin)
        key = (kind, ctxname if kind in ("sql", "par", "gps", "owned") else "")
        if key in first and first[key] != r:
            out.append((mksig(cname, kind, "not_repeatable"), "%s under %s: first %r, later %r" % (kind, ctxname, first[key], r)))
        first.setdefault(key, r)
        if kind == "owned" and isinstance(r, list) and r[1] is False:
            out.append((mksig(cname, "owned", "values_mismatch"), "caller-owned parameterizer did not grow by exactly the values of the render (%s)" % ctxname))
        after = snap.struct_snapshot(o)
        if after != before:
            path = snap.struct_diff(before, after)
            out.append((mksig(cname, kind, "mutates", _attr(path)), "%s under %s changed the object at %s" % (kind, ctxname, path)))
            before = after
    return out


def _attr(path):
    parts = [p for p in (path or "").split(".") if p and not p.isdigit() and not p.startswith("[")]
    return parts[0] if parts else "?"


def check_threads(case, iters=25, nthreads=8):
    out = []
    try:
        o = hist.build_root(case["root"])
    except Exception:
        return out
    cname = type(o).__name__
    ctxs = [prog.sql_context(c) for c in CTXS]
    base = [snap._try(lambda c=c: o.get_sql(c)) for c in ctxs]
    bad = []

    def work(k):
        for i in range(iters):
            j = (i + k) % len(ctxs)
            r = snap._try(lambda: o.get_sql(ctxs[j]))
            if r != base[j]:
                bad.append((j, r))

    old = sys.getswitchinterval()
    sys.setswitchinterval(1e-6)
    try:
        ts = [threading.Thread(target=work, args=(k,)) for k in range(nthreads)]
        for t in ts:
            t.start()
        for t in ts:
            t.join()
    finally:
        sys.setswitchinterval(old)
    if bad:
        j, r = bad[0]
        out.append((mksig(cname, "thread"), "concurrent render under %s gave %r, sequential %r" % (CTXS[j], r, base[j])))
    return out


PROBE_SLOTS = ["select", "where", "orderby", "on", "set", "value", "having"]


def probe_program(cls, slot):
    T, U = ["src", "T"], ["src", "U"]
    pr = ["probe"]
    base = [["from_", [T]], ["select", [["col", "T", "a"], ["as", ["col", "T", "b"], "al"]]],
            ["join", [U, ["enum", "JoinType", "inner"]], {}, ["on", [["eq", ["col", "T", "a"], ["col", "U", "a"]]]]],
            ["where", [["eq", ["col", "T", "c"], ["raw", "v"]]]], ["groupby", [["col", "T", "a"]]], ["orderby", [["col", "T", "a"]]],
            ["for_update", [], {"of": ["pytuple", [["py", "t1"], ["py", "t2"]]]}], ["limit", [["py", 4]]]]
    if slot == "select":
        steps = base + [["select", [pr]]]
    elif slot == "where":
        steps = base + [["where", [["eq", pr, ["raw", 1]]]]]
    elif slot == "having":
        steps = base + [["having", [["gt", pr, ["raw", 1]]]]]
    elif slot == "orderby":
        steps = base + [["orderby", [pr]]]
    elif slot == "on":
        steps = [["from_", [T]], ["select", [["col", "T", "a"]]], ["join", [U, ["enum", "JoinType", "left"]], {}, ["on", [["eq", ["col", "U", "a"], pr]]]], ["where", [["eq", ["col", "T", "c"], ["raw", 2]]]]]
    elif slot == "set":
        steps = [["update", [T]], ["join", [U, ["enum", "JoinType", "inner"]], {}, ["on", [["eq", ["col", "T", "a"], ["col", "U", "a"]]]]], ["set", [["py", "a"], pr]], ["set", [["py", "b"], ["raw", 3]]], ["where", [["eq", ["col", "T", "c"], ["raw", 2]]]]]
    else:
        steps = [["into", [T]], ["insert", [["raw", 1], pr, ["raw", "x"]]], ["on_conflict", [["py", "id"]]], ["do_update", [["py", "a"], ["raw", 5]]]]
    return {"cls": cls, "sources": {}, "steps": steps}


def check_probe(cls, slot, ctxname, par):
    from pypika_tortoise import Parameterizer

    out = []
    p = probe_program(cls, slot)
    try:
        o = hist.build_root(p)
    except Exception:
        return out
    ctx = prog.sql_context(ctxname)

    def mkctx():
        return ctx.copy(parameterizer=Parameterizer()) if par else ctx

    st_ = PROBE_STATE
    st_.update(armed=False, busy=False, outer=o, ctx=mkctx, inner=[])
    base = snap._try(lambda: o.get_sql(mkctx()))
    before = snap.struct_snapshot(o)
    st_["armed"] = True
    try:
        r = snap._try(lambda: o.get_sql(mkctx()))
    finally:
        st_["armed"] = False
    inner = list(st_["inner"])
    st_.update(outer=None, inner=[])
    if r != base:
        out.append((mksig(type(o).__name__, "reentrant_outer", slot), "outer render differs when another render of the same object runs inside it: %r vs %r" % (r, base)))
    if inner and any(x != base for x in inner):
        out.append((mksig(type(o).__name__, "reentrant_inner", slot), "render started inside another render of the same object gives %r, baseline %r" % (inner[0], base)))
    if snap.struct_snapshot(o) != before:
        out.append((mksig(type(o).__name__, "reentrant_mutates", slot), "object changed"))
    return out, bool(inner)


def check_case(case):
    if case.get("mode") == "threads":
        return check_threads(case)
    if case.get("mode") == "probe":
        return check_probe(case["cls"], case["slot"], case["ctx"], case["par"])[0]
    if case.get("mode") == "hashseed":
        return check_hashseed(case["roots"], case.get("seeds", [0, 1, 2, 3]))[0]
    return check(case)


def valid_case(case):
    try:
        if case.get("mode") == "hashseed":
            return False  # every candidate would start child interpreters: the failing batch entry is kept as it is
        if case.get("mode") in ("threads", "probe"):
            return True
        return isinstance(case["root"], dict) and all(k in KINDS and c in CTXS for k, c in case["ops"]) and len(case["ops"]) >= 1
    except (Exception, HarnessError):
        return False


CTX_ORDERS = ("r", "2", "4")


def check_hashseed(roots, seeds):
    """children 0..len(seeds)-1 differ in PYTHONHASHSEED only; the following ones keep seeds[0] and render the class contexts in another order"""
    env = dict(os.environ)
    results = []
    runs = [(hs, "0") for hs in seeds] + [(seeds[0], o) for o in CTX_ORDERS]
    for hs, order in runs:
        env["PYTHONHASHSEED"] = str(hs)
        env["C02_CTX_ORDER"] = order
        env["PYTHONDONTWRITEBYTECODE"] = "1"
        p = subprocess.run([sys.executable, "-m", "pbt.c02child"], input=json.dumps(roots), capture_output=True, text=True, cwd=VERIF_DIR, env=env)
        if p.returncode != 0:
            raise HarnessError("child failed: " + p.stderr[-2000:])
        results.append(json.loads(p.stdout))
    out = []
    bad_idx = []
    for i in range(len(roots)):
        for k in range(1, len(runs)):
            if results[k][i] != results[0][i]:
                d = snap.diff_keys(results[k][i], results[0][i])
                if k < len(seeds):
                    out.append((mksig("hashseed", "set_of_for_update_names" if '"for_update"' in json.dumps(roots[i]) else "frozenset_or_set_of_tuples" if ('"pyfrozenset"' in json.dumps(roots[i])) else "set_as_insert_row" if '"insert", [["pyset"' in json.dumps(roots[i]) else "set_in_rollup_or_of_intervals" if '"rollup", [["pyset"' in json.dumps(roots[i]) else "set_of_json_keys" if "has_any_keys" in json.dumps(roots[i]) else (("set_of_same_named_columns" if json.dumps(roots[i]).count('"c"]') >= 3 else "set_of_terms") if '"pyset", [["col"' in json.dumps(roots[i]) else "set_argument") if '"pyset"' in json.dumps(roots[i]) else d[0].split(":")[0]), "PYTHONHASHSEED=%s vs %s: %s differs: %r vs %r" % (seeds[k], seeds[0], d[:3], results[k][i].get(d[0]), results[0][i].get(d[0]))))
                else:
                    out.append((mksig("render_history", d[0].split(":")[0]), "a fresh interpreter that renders the class contexts in order %r instead of the default one: %s differs: %r vs %r" % (
                        runs[k][1], d[:3], results[k][i].get(d[0]), results[0][i].get(d[0]))))
                bad_idx.append(i)
                break
    return out, bad_idx


FEATURES = ("join", "with_", "union", "union_all", "intersect", "for_update", "on_conflict", "returning")


def nontrivial(case):
    r = case["root"]
    txt = json.dumps(r)
    feat = any('"%s"' % f in txt for f in FEATURES) or '"q"' in txt or '"star"' in txt
    ops = case["ops"]
    ctxs = {c for k, c in ops if k in ("sql", "par", "gps", "owned")}
    rep = len({(k, c) for k, c in ops}) < len(ops)
    return feat and len(ctxs) >= 2 and rep


def shards(tier, sd):
    n = 6 if tier == "quick" else 24
    out = [("hist", tier, sd * 1000 + k) for k in range(n)]
    out.append(("hashseed", tier, sd * 1000 + 900))
    out.append(("threads", tier, sd * 1000 + 901))
    out.append(("probe", tier, sd))
    if tier == "thorough":
        out += [("hashseed", tier, sd * 1000 + 902 + k) for k in range(3)] + [("threads", tier, sd * 1000 + 910 + k) for k in range(3)]
    return out


def run_shard(shard):
    kind, tier, sd = shard
    col = Collector()
    if kind == "hist":
        nex = 350 if tier == "quick" else 3000

        @seed(sd)
        @settings(max_examples=nex, database=None, deadline=None, suppress_health_check=list(HealthCheck), report_multiple_bugs=False)
        @given(cases())
        def prop(case):
            res = check(case)
            col.case(case, nontrivial(case), classes=("family:" + case["family"],) + tuple("op:" + k for k, _ in case["ops"]))
            for sig, detail in res:
                col.violation(sig, case, detail)

        prop()
        return col
    if kind in ("hashseed", "threads"):
        n = (120 if kind == "hashseed" else 40) if tier == "quick" else (400 if kind == "hashseed" else 300)
        got = []

        @seed(sd)
        @settings(max_examples=n, database=None, deadline=None, suppress_health_check=list(HealthCheck), report_multiple_bugs=False)
        @given(cases())
        def collect(case):
            got.append(case)

        collect()
        # every feature-rich template under every class, deterministically
        for tmpl in RICH:
            for cls in CTXS:
                r = json.loads(json.dumps(tmpl))
                if r["cls"] == "C":
                    r["cls"] = cls
                elif cls != CTXS[0]:
                    continue
                got.append({"family": "rich", "root": r, "ops": []})
        if kind == "hashseed":
            seeds = [0, 1, 2, 3] if tier == "quick" else [0, 1, 2, 3, 4, 5, 6, 7]
            roots = [c["root"] for c in got]
            res, bad = check_hashseed(roots, seeds)
            for c in got:
                col.case({"mode": "hashseed", "root": c["root"]}, True, classes=("hashseed_objects",))
            col.count("hashseed_child_processes", len(seeds))
            for (sig, detail), i in zip(res, bad):
                col.violation(sig, {"mode": "hashseed", "roots": [roots[i]], "seeds": seeds}, detail)
        else:
            for c in got:
                case = {"mode": "threads", "root": c["root"]}
                col.case(case, True, classes=("threaded_objects",))
                for sig, detail in check_threads(case):
                    col.violation(sig, case, detail)
        return col
    if kind == "probe":
        n = 0
        for cls in CTXS:
            for slot in PROBE_SLOTS:
                for ctxname in (cls, "generic" if cls != "generic" else "mysql"):
                    for par in (False, True):
                        case = {"mode": "probe", "cls": cls, "slot": slot, "ctx": ctxname, "par": par}
                        res, entered = check_probe(cls, slot, ctxname, par)
                        col.case(case, entered, classes=("probe:" + slot, "probe_entered" if entered else "probe_not_reached"))
                        for sig, detail in res:
                            col.violation(sig, case, detail)
        return col
    raise HarnessError(kind)
