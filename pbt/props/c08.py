"""C08 - One dialect's conventions govern the whole statement tree.

(a1) neutral programs (the builder subset every class has, no pagination / upsert / vendor clauses) rendered under every ordered pair
     of classes: token streams are identical once the documented conventions are normalised (identifier quote -> decoded name,
     placeholder -> '?', set-operand brackets, GROUP BY alias policy).
(a2) the same statement with its nested queries built by the generic Query class instead of the outer class renders identically
     under the outer class (conventions come from the rendering context, not from the class that built the inner query).
(b)  sensitive terms (Parameter(idx), parameterised values, booleans, arrays, intervals, tz-aware times, quoted names) placed at
     every nesting position, with the inner query built by the same or by the generic class, inline and parameterised: the term's
     tokens (found between marker-function brackets) must have the form the convention table gives for the outer class.
"""
from __future__ import annotations

import copy
import itertools
import json

from hypothesis import HealthCheck, given, seed, settings, strategies as st

from pbt import gen, lex, prog
from pbt.core import Collector, HarnessError, mksig

ID = "C08"
RULE = ("(a) Hypothesis-generated neutral statements (select/insert/update/delete, joins, subqueries in FROM/IN/select, CTEs, set operations, CASE, functions) rendered "
        "under all 30 ordered class pairs and with generic-built inner queries; (b) enumerated matrix: 10 sensitive terms x 12 positions (9 nesting positions, UPDATE SET, and the plain value in UPDATE SET / INSERT VALUES) x 6 classes x "
        "{same, generic} inner class x {inline, parameterised}. Non-trivial = nesting depth >= 2 or a sensitive term below a nesting construct; distinct = distinct case. (d) set-operand wrapping: 6 shapes of chained / nested set operations x 16 operator pairs x 6 classes: after normalising operand brackets (and SQLite's FROM-subquery form) every class groups the operands the same way.")
ASSUMPTIONS = [
    "convention table (DESIGN.md Appendix C): quotes, placeholders, boolean / array / interval forms, set-operand brackets (MySQL, SQLite bare), GROUP BY alias policy (MSSQL, Oracle re-render)",
    "the pagination form of an inner query is bound to the class that built it (documented) and is not part of the neutral subset",
    "class-only APIs (returning, distinct_on, top, modifier) and upserts are not neutral",
]

CTXS = prog.CLS_NAMES
BARE_SETOPS = ("mysql", "sqlite")
NO_GROUPBY_ALIAS = ("mssql", "oracle")
FEATURES = ("join", "where", "groupby", "having", "orderby", "distinct", "subquery", "cte", "setop", "insert_select")


def norm(tokens):
    return [("param", "?") if t.kind == "param" else t.key for t in tokens]


def strip_operand_brackets(keys):
    """remove the brackets of set-operation operands: '(' SELECT ... ')' directly followed / preceded by a set operator"""
    out = list(keys)
    changed = True
    setw = {("word", "UNION"), ("word", "INTERSECT"), ("word", "EXCEPT"), ("word", "MINUS")}
    while changed:
        changed = False
        stack = []
        pairs = []
        for i, k in enumerate(out):
            if k == ("punct", "("):
                stack.append(i)
            elif k == ("punct", ")") and stack:
                pairs.append((stack.pop(), i))
        for a, b in pairs:
            if a + 1 < len(out) and out[a + 1] in (("word", "SELECT"), ("word", "WITH")) and not _compound(out[a + 1:b]):
                after = out[b + 1] if b + 1 < len(out) else None
                before = out[a - 1] if a > 0 else None
                before2 = out[a - 2] if a > 1 else None
                if after in setw or before in setw or (before == ("word", "ALL") and before2 == ("word", "UNION")):
                    del out[b]
                    del out[a]
                    changed = True
                    break
    return out


def _compound(keys):
    """does the token list hold a set operator outside every bracket?"""
    d = 0
    for k in keys:
        if k == ("punct", "("):
            d += 1
        elif k == ("punct", ")"):
            d -= 1
        elif d == 0 and k in (("word", "UNION"), ("word", "INTERSECT"), ("word", "EXCEPT"), ("word", "MINUS")):
            return True
    return False


def sqlite_compound_operands(keys):
    """SQLite has no bracketed operands: an operand that must stay one unit (a compound, or a select with ORDER BY / LIMIT / OFFSET of its
    own) is written SELECT * FROM ( <unit> ) without an alias. Read it as ( <unit> )."""
    out = list(keys)
    setw = {("word", "UNION"), ("word", "INTERSECT"), ("word", "EXCEPT"), ("word", "ALL")}
    i = 0
    while i + 3 < len(out):
        if out[i] == ("word", "SELECT") and out[i + 1] == ("op", "*") and out[i + 2] == ("word", "FROM") and out[i + 3] == ("punct", "("):
            d, j = 0, i + 3
            while j < len(out):
                if out[j] == ("punct", "("):
                    d += 1
                elif out[j] == ("punct", ")"):
                    d -= 1
                    if d == 0:
                        break
                j += 1
            prev = out[i - 1] if i > 0 else None
            nxt = out[j + 1] if j + 1 < len(out) else None
            is_operand = prev in setw or nxt in setw
            if is_operand and (prev is None or prev in setw or prev == ("punct", "(")) and (nxt is None or nxt == ("punct", ")") or nxt in setw or nxt in (("word", "ORDER"), ("word", "LIMIT"), ("word", "OFFSET"))):
                del out[i:i + 3]
                continue
        i += 1
    return out


# ---- (d) set-operand wrapping keeps the grouping the calls express ---------------------------------------------------------------

SETOPS = ("union", "union_all", "intersect", "except_of")
GROUPING_SHAPES = ("right_nested", "chain", "right_nested_then_chain", "double_nested", "right_nested_in_from", "right_nested_in_where")


def _sel(t, col="a"):
    return [["from_", [["src", t]]], ["select", [["col", t, col]]]]


GROUPING_SOURCES = {k: ["tbl", k, None, None] for k in ("ta", "tb", "tc", "td", "te")}


def grouping_program(shape, op1, op2):
    def Qp(steps):
        return {"cls": "inherit", "sources": {}, "steps": steps}
    a, b, c, d = (_sel(t) for t in ("ta", "tb", "tc", "td"))
    if shape == "chain":
        steps = a + [[op1, [["q", Qp(b)]]], [op2, [["q", Qp(c)]]]]
    elif shape == "right_nested":
        steps = a + [[op1, [["q", Qp(b + [[op2, [["q", Qp(c)]]]])]]]]
    elif shape == "right_nested_then_chain":
        steps = a + [[op1, [["q", Qp(b + [[op2, [["q", Qp(c)]]]])]]], [op2, [["q", Qp(d)]]]]
    elif shape == "double_nested":
        steps = a + [[op1, [["q", Qp(b + [[op2, [["q", Qp(c + [[op1, [["q", Qp(d)]]]])]]]])]]]]
    elif shape == "right_nested_in_from":
        inner = Qp(a + [[op1, [["q", Qp(b + [[op2, [["q", Qp(c)]]]])]]]])
        steps = [["from_", [["q", inner]]], ["select", [["py", "a"]]]]
    elif shape == "right_nested_in_where":
        inner = Qp(a + [[op1, [["q", Qp(b + [[op2, [["q", Qp(c)]]]])]]]])
        steps = [["from_", [["src", "te"]]], ["select", [["py", "a"]]], ["where", [["in", ["col", "te", "a"], ["q", inner]]]]]
    else:
        raise HarnessError(shape)
    return {"cls": "generic", "sources": GROUPING_SOURCES, "steps": steps}


def grouping_cases():
    for shape in GROUPING_SHAPES:
        for op1 in SETOPS:
            for op2 in SETOPS:
                yield {"mode": "grouping", "shape": shape, "op1": op1, "op2": op2}


def check_grouping(case):
    p = grouping_program(case["shape"], case["op1"], case["op2"])
    base = None
    out = []
    for cls in CTXS:
        for par in (False, True):
            try:
                sql, _ = render(dict(p, cls=cls), cls, par)
            except Exception as e:
                out.append((mksig("setop_grouping", cls, "raises", type(e).__name__), "%s %s/%s: %r" % (case["shape"], case["op1"], case["op2"], e)))
                return out
            keys = norm(lex.lex(sql, cls))
            if cls == "sqlite":
                keys = sqlite_compound_operands(keys)
            keys = strip_operand_brackets(keys)
            if cls == "oracle":
                keys = [("word", "EXCEPT") if k == ("word", "MINUS") else k for k in keys]
            if base is None:
                base = (cls, keys, sql)
            elif keys != base[1]:
                out.append((mksig("setop_grouping", cls, case["shape"]), "%s vs %s: %r vs %r - the operands are grouped differently" % (base[0], cls, base[2], sql)))
                return out
    # the generic rendering itself: a nested operand is one bracketed unit (checked on the normalised stream: brackets around a compound stay)
    nested = case["shape"] != "chain"
    if nested and not any(base[1][i] == ("punct", "(") and _compound(base[1][i + 1:_close(base[1], i)]) for i in range(len(base[1]))):
        out.append((mksig("setop_grouping", "all", case["shape"], "no_unit"), "%r: the nested operand is not one bracketed unit" % base[2]))
    return out


def _close(keys, i):
    d = 0
    for j in range(i, len(keys)):
        if keys[j] == ("punct", "("):
            d += 1
        elif keys[j] == ("punct", ")"):
            d -= 1
            if d == 0:
                return j
    return len(keys)


def hoist_insert_with(keys):
    """MySQL / Oracle write the common table expressions of INSERT .. SELECT immediately before the SELECT (they have no WITH in front of
    INSERT): move that WITH clause to the front, where the other classes write it. -> (keys, moved?)"""
    if not keys or keys[0] not in (("word", "INSERT"), ("word", "REPLACE")):
        return keys, False
    d = 0
    w = None
    for i, k in enumerate(keys):
        if k == ("punct", "("):
            d += 1
        elif k == ("punct", ")"):
            d -= 1
        elif d == 0 and k == ("word", "WITH") and w is None:
            w = i
        elif d == 0 and k == ("word", "SELECT") and w is not None:
            return keys[w:i] + keys[:w] + keys[i:], True
        elif d == 0 and k == ("word", "SELECT"):
            return keys, False
    return keys, False


def has_aliased_groupby(p):
    txt = json.dumps(p)
    i = txt.find('"groupby", [["as"')
    return i >= 0


def make_inner_generic(p):
    q = copy.deepcopy(p)

    def walk(n):
        if isinstance(n, dict):
            if "steps" in n and n is not q:
                n["cls"] = "generic"
                n["cls_fixed"] = True
            for v in n.values():
                walk(v)
        elif isinstance(n, list):
            for v in n:
                walk(v)

    walk(q)
    return q


def nesting_depth(p):
    def d(n):
        if isinstance(n, dict):
            return (1 if "steps" in n else 0) + max([d(v) for v in n.values()] + [0])
        if isinstance(n, list):
            return max([d(v) for v in n] + [0])
        return 0

    return d(p)


def render(p, cls, par, force=True):
    q = prog.build_program(p, force_cls=cls if force else None)
    if par:
        return prog.render(q, cls, True)
    return q.get_sql(prog.sql_context(cls)), None


def check_neutral(p):
    """-> list of (sig, detail)"""
    out = []
    rendered = {}
    for cls in CTXS:
        for par in (False, True):
            try:
                sql, vals = render(dict(p, cls=cls), cls, par)
            except Exception as e:
                rendered[(cls, par)] = ("EXC:" + type(e).__name__, None)
                continue
            rendered[(cls, par)] = (sql, vals)
    # (a3) the three ways to render - str(q), q.get_sql() and q.get_sql(<class context>) - agree
    for cls in CTXS:
        sql, _ = rendered[(cls, False)]
        if sql.startswith("EXC:"):
            continue
        try:
            q = prog.build_program(dict(p, cls=cls), force_cls=cls)
            forms = {"str": str(q)}
            try:
                forms["noarg"] = q.get_sql()
            except TypeError as e:
                forms["noarg"] = "EXC:TypeError %s" % e  # every statement object renders without an argument (its class's context)
        except Exception as e:
            forms = {"str": "EXC:" + type(e).__name__}
        for name, text in forms.items():
            if text != sql:
                out.append((mksig("entry_points", cls, name), "%s gives %r but get_sql(%s context) gives %r" % (name, text, cls, sql)))
                break
    groupby_aliased = has_aliased_groupby(p)
    for par in (False, True):
        base = None
        for cls in CTXS:
            sql, vals = rendered[(cls, par)]
            if sql.startswith("EXC:"):
                keys = sql
            else:
                keys = norm(lex.lex(sql, cls))
                if cls == "sqlite":
                    keys = sqlite_compound_operands(keys)
                keys = strip_operand_brackets(keys)
                hoisted = False
                if cls in ("mysql", "oracle"):
                    keys, hoisted = hoist_insert_with(keys)
            if groupby_aliased and cls in NO_GROUPBY_ALIAS:
                continue
            if base is None:
                base = (cls, keys, sql, vals)
                continue
            if keys != base[1]:
                out.append((mksig("cross_class", cls, _first_diff(base[1], keys)), "%s vs %s (%s): %r vs %r" % (base[0], cls, "parameterised" if par else "inline", base[2], sql)))
                break
            hv = not isinstance(keys, str) and cls in ("mysql", "oracle") and hoisted  # the values follow the text: compared as a multiset then
            if par and (sorted if hv else list)([repr(v) for v in (vals or [])]) != (sorted if hv else list)([repr(v) for v in (base[3] or [])]):
                out.append((mksig("cross_class_values", cls), "%r vs %r" % (base[3], vals)))
                break
    # (a2) inner queries built with the generic class
    if nesting_depth(p) >= 2:
        g = make_inner_generic(p)
        for cls in CTXS:
            for par in (False, True):
                a = rendered[(cls, par)]
                try:
                    b = render(dict(g, cls=cls), cls, par, force=False)
                except Exception as e:
                    b = ("EXC:" + type(e).__name__, None)
                if a[0].startswith("EXC:") or b[0].startswith("EXC:"):
                    continue
                ka, kb = [t.key for t in lex.lex(a[0], cls)], [t.key for t in lex.lex(b[0], cls)]
                if ka != kb and strip_operand_brackets(sqlite_compound_operands(ka)) == strip_operand_brackets(sqlite_compound_operands(kb)):
                    # the two differ in nothing but the wrapping of set-operation operands: one root cause, one signature
                    out.append((mksig("generic_inner", cls, "setop_wrapping"), "under %s a set operation built with the generic class keeps the generic operand wrapping: %r, built with %s: %r" % (cls, b[0], cls, a[0])))
                    break  # one report per class
                if ka != kb or [repr(v) for v in (a[1] or [])] != [repr(v) for v in (b[1] or [])]:
                    out.append((mksig("generic_inner", cls, _first_diff(ka, kb)), "under %s the statement with generic-built inner queries renders %r, with %s-built ones %r" % (cls, b[0], cls, a[0])))
                    return out
    return out


def _first_diff(a, b):
    if isinstance(a, str) or isinstance(b, str):
        return "exception"
    i = 0
    while i < min(len(a), len(b)) and a[i] == b[i]:
        i += 1
    x = a[i] if i < len(a) else ("end", "")
    y = b[i] if i < len(b) else ("end", "")
    return "%s:%s/%s:%s" % (x[0], str(x[1])[:12], y[0], str(y[1])[:12])


# ---- (b) sensitive matrix ------------------------------------------------------------------------------------------------

MK = "MK9"
TZT = ["pyv", "time", "10:11:12+02:00"]
TERMS = {
    "param_idx": ["param", 3],
    "value_int": ["vw", ["raw", 4242]],
    "bool_plain": ["raw", True],
    "array": ["array", [["raw", 1], ["raw", 2]]],
    "array_empty": ["array", []],
    "array_single": ["array", [["raw", 7]]],
    "interval": ["interval", {"days": 2, "hours": 3}],
    "tz_time": ["vw", TZT],
    "string_bs": ["vw", ["raw", "a\\b'c"]],
    "quoted_name": ["col", "T", "Na me"],
    "groupby_alias": ["col", "T", "g"],
}
POSITIONS = ["top_select", "top_where", "from_sub_select", "in_sub_where", "cte_select", "setop_right_select", "join_on", "scalar_sub_select", "insert_select",
             "update_set", "update_set_raw", "insert_value_raw"]
RAW_POSITIONS = ("update_set_raw", "insert_value_raw")  # the plain Python value handed to the builder: wrapped by the class's own ValueWrapper
RAW_TERMS = ("value_int", "bool_plain", "tz_time", "string_bs")
TOP_POSITIONS = ("top_select", "top_where", "join_on", "insert_select", "update_set", "update_set_raw", "insert_value_raw")


def wrap(term):
    return ["cfn", MK, [term]]


GROUPBY_MODE = False


def matrix_program(cls, pos, term, inner_cls, groupby_mode=False):
    global GROUPBY_MODE
    GROUPBY_MODE = groupby_mode
    try:
        return _matrix_program(cls, pos, term, inner_cls)
    finally:
        GROUPBY_MODE = False


def _matrix_program(cls, pos, term, inner_cls):
    src = dict(gen.SOURCES)
    m = wrap(term)
    a = ["col", "T", "a"]
    icls = {"cls": inner_cls, "cls_fixed": inner_cls != "inherit"}

    def sub(sel=None, where=None):
        steps = [["from_", [["src", "T"]]], ["select", [sel or a]]]
        if where is not None:
            steps.append(["where", [where]])
        if GROUPBY_MODE:
            # the marked term is the aliased select item; the same aliased term is the GROUP BY item
            gterm = ["as", m, "gk"]
            steps = [["from_", [["src", "T"]]], ["select", [gterm if sel is not None else a]], ["groupby", [gterm if sel is not None else a]]]
            if where is not None:
                steps = [["from_", [["src", "T"]]], ["select", [["as", ["col", "T", "g"], "gk"]]], ["where", [where]], ["groupby", [["as", ["col", "T", "g"], "gk"]]]]
        return dict(icls, sources={}, steps=steps)

    if pos == "top_select":
        steps = [["from_", [["src", "U"]]], ["select", [m]]]
    elif pos == "top_where":
        steps = [["from_", [["src", "T"]]], ["select", [a]], ["where", [["eq", a, m]]]]
    elif pos == "from_sub_select":
        steps = [["from_", [["q", sub(sel=["as", m, "mm"])]]], ["select", [["py", "*"]]]]
    elif pos == "in_sub_where":
        steps = [["from_", [["src", "U"]]], ["select", [["col", "U", "a"]]], ["where", [["in", ["col", "U", "a"], ["q", sub(where=["eq", a, m])]]]]]
    elif pos == "cte_select":
        steps = [["with_", [["q", sub(sel=["as", m, "mm"])], ["py", "c9"]]], ["from_", [["cte", "c9"]]], ["select", [["py", "*"]]]]
    elif pos == "setop_right_select":
        steps = [["from_", [["src", "U"]]], ["select", [["col", "U", "a"]]], ["union_all", [["q", sub(sel=m)]]]]
    elif pos == "join_on":
        steps = [["from_", [["src", "U"]]], ["join", [["src", "T"], ["enum", "JoinType", "inner"]], {}, ["on", [["eq", a, m]]]], ["select", [["col", "U", "a"]]]]
    elif pos == "scalar_sub_select":
        steps = [["from_", [["src", "U"]]], ["select", [["col", "U", "a"], ["subq", sub(sel=m)]]]]
    elif pos == "insert_select":
        steps = [["into", [["src", "V"]]], ["from_", [["src", "T"]]], ["select", [m]]]
    elif pos == "update_set":
        steps = [["update", [["src", "T"]]], ["set", [a, m]], ["where", [["eq", ["col", "T", "id"], ["raw", 1]]]]]
    elif pos == "update_set_raw":
        steps = [["update", [["src", "T"]]], ["set", [a, term[1] if term[0] == "vw" else term]], ["where", [["eq", ["col", "T", "id"], ["raw", 1]]]]]
    elif pos == "insert_value_raw":
        steps = [["into", [["src", "T"]]], ["columns", [["py", "a"]]], ["insert", [term[1] if term[0] == "vw" else term]]]
    else:
        raise HarnessError(pos)
    return {"cls": cls, "sources": src, "steps": steps}


def expected_form(cls, term_name, par, sql_values):
    """-> predicate over the token list of the term (tokens between MK9( and its closing bracket)"""
    q = "`" if cls == "mysql" else '"'
    ph = {"mysql": "%s", "postgresql": "$"}.get(cls, "?")

    def is_ph(t):
        return t.kind == "param" and (t.text == ph if ph != "$" else t.text.startswith("$"))

    if term_name == "param_idx":
        return lambda ts: len(ts) == 1 and ts[0].kind == "param" and ts[0].text == {"mysql": "%s", "postgresql": "$3"}.get(cls, "?"), "Parameter(idx=3) placeholder"
    if term_name == "value_int":
        if par:
            return lambda ts: len(ts) == 1 and is_ph(ts[0]), "placeholder in the class's style"
        return lambda ts: [t.key for t in ts] == [("num", "4242")], "4242"
    if term_name == "bool_plain":
        if par:
            return lambda ts: len(ts) == 1 and is_ph(ts[0]), "placeholder"
        if cls == "sqlite":
            return lambda ts: [t.key for t in ts] == [("num", "1")], "1 (SQLite boolean)"
        return lambda ts: [t.key for t in ts] == [("word", "TRUE")], "true"
    if term_name == "array":
        if par:
            return lambda ts: len(ts) == 1 and is_ph(ts[0]), "one placeholder for the whole array"
        if cls == "postgresql":
            return lambda ts: [t.key for t in ts] == [("word", "ARRAY"), ("punct", "["), ("num", "1"), ("punct", ","), ("num", "2"), ("punct", "]")], "ARRAY[1,2]"
        return lambda ts: [t.key for t in ts] == [("punct", "["), ("num", "1"), ("punct", ","), ("num", "2"), ("punct", "]")], "[1,2]"
    if term_name == "array_single":
        if par:
            return lambda ts: len(ts) == 1 and is_ph(ts[0]), "one placeholder for the whole array"
        if cls == "postgresql":
            return lambda ts: [t.key for t in ts] == [("word", "ARRAY"), ("punct", "["), ("num", "7"), ("punct", "]")], "ARRAY[7]"
        return lambda ts: [t.key for t in ts] == [("punct", "["), ("num", "7"), ("punct", "]")], "[7]"
    if term_name == "array_empty":
        if par:
            return lambda ts: len(ts) == 1 and is_ph(ts[0]), "placeholder"
        if cls == "postgresql":
            return lambda ts: [t.key for t in ts] == [("str", "{}")], "'{}'"
        return lambda ts: [t.key for t in ts] == [("punct", "["), ("punct", "]")], "[]"
    if term_name == "interval":
        if cls in ("mysql", "oracle"):
            return lambda ts: [t.key for t in ts] == [("word", "INTERVAL"), ("str", "2 3"), ("word", "DAY_HOUR")], "INTERVAL '2 3' DAY_HOUR"
        return lambda ts: [t.key for t in ts] == [("word", "INTERVAL"), ("str", "2 3 DAY_HOUR")], "INTERVAL '2 3 DAY_HOUR'"
    if term_name == "tz_time":
        if par:
            return lambda ts: len(ts) == 1 and is_ph(ts[0]), "placeholder"
        return lambda ts: len(ts) == 1 and ts[0].kind == "str" and ts[0].value in ("10:11:12+02:00", "10:11:12"), "'10:11:12+02:00'"
    if term_name == "string_bs":
        if par:
            return lambda ts: len(ts) == 1 and is_ph(ts[0]), "placeholder"
        return lambda ts: len(ts) == 1 and ts[0].kind == "str" and ts[0].value == "a\\b'c", "one string literal that the dialect reads back as a\\b'c"
    if term_name == "quoted_name":
        return lambda ts: len(ts) >= 1 and ts[-1].kind == "qid" and ts[-1].value == "Na me" and q in ts[-1].flags and all(t.kind != "qid" or q in t.flags for t in ts), "%sNa me%s" % (q, q)
    raise HarnessError(term_name)


def marker_tokens(tokens):
    for i, t in enumerate(tokens):
        if t.kind == "word" and t.value == MK and i + 1 < len(tokens) and tokens[i + 1].text == "(":
            depth = 0
            for j in range(i + 1, len(tokens)):
                if tokens[j].kind == "punct" and tokens[j].text in "([":
                    depth += 1
                elif tokens[j].kind == "punct" and tokens[j].text in ")]":
                    depth -= 1
                    if depth == 0:
                        return tokens[i + 2:j]
    return None


def raw_tokens(tokens, pos):
    """the tokens of the lone value: after SET <col> = up to WHERE, or inside VALUES ( )"""
    if pos == "update_set_raw":
        for i, t in enumerate(tokens):
            if t.kind == "word" and t.value == "SET":
                j = next((k for k in range(i, len(tokens)) if tokens[k].kind == "op" and tokens[k].text == "="), None)
                if j is None:
                    return None
                end = next((k for k in range(j, len(tokens)) if tokens[k].kind == "word" and tokens[k].value == "WHERE"), len(tokens))
                return tokens[j + 1:end]
        return None
    for i, t in enumerate(tokens):
        if t.kind == "word" and t.value == "VALUES" and i + 1 < len(tokens) and tokens[i + 1].text == "(":
            return tokens[i + 2:len(tokens) - 1] if tokens[-1].text == ")" else None
    return None


GROUPBY_POSITIONS = ("from_sub_select", "in_sub_where", "cte_select", "setop_right_select", "scalar_sub_select")


def check_groupby_cell(cls, pos, inner, par):
    p = matrix_program(cls, pos, TERMS["groupby_alias"], inner, groupby_mode=True)
    try:
        sql, vals = render(p, cls, par, force=False)
    except Exception as e:
        return ("raises:" + type(e).__name__, "%r" % (e,))
    toks = lex.lex(sql, cls)
    idx = [i for i, t in enumerate(toks) if t.kind == "word" and t.value == "GROUP"]
    if not idx:
        return ("marker_lost", sql)
    i = idx[0] + 2
    item = []
    depth = 0
    while i < len(toks):
        t = toks[i]
        if t.kind == "punct" and t.text == "(":
            depth += 1
        elif t.kind == "punct" and t.text == ")":
            if depth == 0:
                break
            depth -= 1
        elif depth == 0 and t.kind == "word" and t.value in ("HAVING", "ORDER", "LIMIT", "OFFSET", "UNION"):
            break
        item.append(t)
        i += 1
    by_alias = [t.key for t in item] == [("qid", "gk")]
    if cls in NO_GROUPBY_ALIAS and by_alias:
        return ("form", "GROUP BY refers to the select alias under %s (inner built by %s): %r" % (cls, inner if inner != "inherit" else cls, sql))
    if cls not in NO_GROUPBY_ALIAS and not by_alias:
        return ("form", "GROUP BY does not use the select alias under %s (inner built by %s): %r" % (cls, inner if inner != "inherit" else cls, sql))
    return None


def check_cell(cls, pos, term_name, inner, par):
    if term_name == "groupby_alias":
        if pos not in GROUPBY_POSITIONS:
            return None
        return check_groupby_cell(cls, pos, inner, par)
    if pos in RAW_POSITIONS and term_name not in RAW_TERMS:
        return None
    p = matrix_program(cls, pos, TERMS[term_name], inner)
    try:
        sql, vals = render(p, cls, par, force=False)
    except Exception as e:
        return ("raises:" + type(e).__name__, "%r" % (e,))
    toks = lex.lex(sql, cls)
    if pos in RAW_POSITIONS:
        mt = raw_tokens(toks, pos)
    else:
        mt = marker_tokens(toks)
    if mt is None:
        return ("marker_lost", sql)
    pred, desc = expected_form(cls, term_name, par, vals)
    if not pred(mt):
        return ("form", "%s at %s under %s (inner built by %s, %s): rendered %r, expected %s ; statement %r" % (
            term_name, pos, cls, inner if inner != "inherit" else cls, "parameterised" if par else "inline", " ".join(t.text for t in mt), desc, sql))
    # identifier quote at every depth
    q = "`" if cls == "mysql" else '"'
    for t in toks:
        if t.kind == "qid" and q not in t.flags:
            return ("quote", "identifier %r is not quoted with %s in %r" % (t.text, q, sql))
    if par and cls == "postgresql":
        nums = [int(t.text[1:]) for t in toks if t.kind == "param" and t.text[1:].isdigit() and t.text.startswith("$")]
        want_idx = term_name == "param_idx"
        others = [n for n in nums]
        if not want_idx and others != list(range(1, len(others) + 1)):
            return ("numbering", "%r" % sql)
    return None


# ---- (c) DDL builders: the three entry points agree and the class's identifier quote is used ----------------------------------------


def ddl_cases():
    for cls in CTXS:
        for name in ("create_columns", "create_as_select", "create_temporary_unique", "drop", "drop_if_exists", "drop_schema_table",
                     "table_factory_select", "tables_factory_select", "tables_factory_update", "tables_factory_insert", "create_default_interval"):
            yield {"mode": "ddl", "cls": cls, "name": name}


def build_ddl(cls, name):
    import pypika_tortoise as P

    Q = prog.query_cls(cls)
    t = P.Table("t")
    if name == "create_columns":
        return Q.create_table("Na me").columns(P.Column("a", "INT"), P.Column("b c", "VARCHAR(10)", nullable=False, default="x")).primary_key("a")
    if name == "create_as_select":
        return Q.create_table("n").as_select(Q.from_(t).select(t.a, t.b).where(t.a == "v"))
    if name == "create_temporary_unique":
        return Q.create_table("n").temporary().if_not_exists().columns(P.Column("a", "INT"), P.Column("b", "INT")).unique("a", "b")
    if name == "create_default_interval":
        return Q.create_table("n").columns(P.Column("ttl", "INTERVAL", default=P.Interval(days=2, hours=3)))
    if name == "drop":
        return Q.drop_table("Na me")
    if name == "drop_if_exists":
        return Q.drop_table(P.Table("n")).if_exists()
    if name == "drop_schema_table":
        return Q.drop_table(P.Table("n", schema="s c"))
    # tables made by the class's own factories start statements of that class
    if name == "table_factory_select":
        return Q.Table("Na me").select("a", "b").where(P.Field("a") == "v")
    if name == "tables_factory_select":
        return Q.Tables("x", ("Na me", "al"))[1].select("a")
    if name == "tables_factory_update":
        return Q.Tables("x", "Na me")[1].update().set("a", 1)
    if name == "tables_factory_insert":
        return Q.Tables("x", "Na me")[0].insert(1, "v")
    raise HarnessError(name)


def check_ddl(case):
    cls = case["cls"]
    try:
        q = build_ddl(cls, case["name"])
        sql = q.get_sql(prog.sql_context(cls))
        forms = {"str": str(q)}
        try:
            forms["noarg"] = q.get_sql()
        except TypeError as e:
            forms["noarg"] = "EXC:TypeError %s" % e
    except Exception as e:
        return [(mksig("ddl", cls, "raises", type(e).__name__), repr(e))]
    out = []
    for name, text in forms.items():
        if text != sql:
            out.append((mksig("ddl", "entry_points", type(q).__name__, name), "%s of %s gives %r but get_sql(%s context) gives %r" % (name, type(q).__name__, text, cls, sql)))
            break
    if case["name"] == "create_default_interval" and not out:
        # the interval literal of a column default follows the class's template like any other interval
        toks = lex.lex(sql, cls)
        i = next((k for k, t in enumerate(toks) if t.kind == "word" and t.value == "INTERVAL" and k > 0 and toks[k - 1].kind == "word" and toks[k - 1].value == "DEFAULT"), None)
        pred, want = expected_form(cls, "interval", False, None)
        j = i
        while j is not None and j < len(toks) and not (toks[j].kind == "punct" and toks[j].text in (")", ",")):
            j += 1
        if i is None or not pred(toks[i:j]):
            out.append((mksig("ddl", cls, "interval_default_form"), "column default in %r: expected %s" % (sql, want)))
    qc = "`" if cls == "mysql" else '"'
    for text in [sql] + list(forms.values()):
        bad = [t for t in lex.lex(text, cls) if t.kind == "qid" and qc not in t.flags]
        if bad and not out:
            out.append((mksig("ddl", cls, "quote", type(q).__name__), "identifier %r is not quoted with %s in %r" % (bad[0].text, qc, text)))
            break
    return out


def cells():
    for cls in CTXS:
        for pos in POSITIONS:
            for term_name in TERMS:
                for inner in ("inherit", "generic"):
                    if inner == "generic" and pos in TOP_POSITIONS:
                        continue
                    for par in (False, True):
                        yield cls, pos, term_name, inner, par


def check_case(case):
    if case.get("mode") == "ddl":
        return check_ddl(case)
    if case.get("mode") == "grouping":
        return check_grouping(case)
    if case.get("mode") == "cell":
        r = check_cell(case["cls"], case["pos"], case["term"], case["inner"], case["par"])
        if r is None:
            return []
        return [(cell_sig(case["cls"], case["pos"], case["term"], case["inner"], r[0]), r[1])]
    return check_neutral(case["program"])


def cell_sig(cls, pos, term, inner, kind):
    nested = "nested" if pos not in TOP_POSITIONS else "top"
    return mksig("matrix", cls, term, kind, "generic_inner" if inner == "generic" else nested)


def valid_case(case):
    try:
        if case.get("mode") == "ddl":
            return case in list(ddl_cases())
        if case.get("mode") == "grouping":
            return case in list(grouping_cases())
        if case.get("mode") == "cell":
            return case["cls"] in CTXS and case["pos"] in POSITIONS and case["term"] in TERMS and case["inner"] in ("inherit", "generic") and case["par"] in (False, True)
        prog.build_program(dict(case["program"], cls="generic"), force_cls="generic")
        return True
    except (Exception, HarnessError):
        return False


def shards(tier, sd):
    out = [("matrix", tier, c) for c in CTXS] + [("ddl", tier, 0), ("grouping", tier, 0)]
    n = 6 if tier == "quick" else 24
    out += [("neutral", tier, sd * 1000 + k) for k in range(n)]
    return out


def run_shard(shard):
    kind, tier, arg = shard
    col = Collector()
    if kind == "ddl":
        for case in ddl_cases():
            col.case(case, True, classes=("ddl:" + case["name"],))
            for sig, detail in check_ddl(case):
                col.violation(sig, case, detail)
        return col
    if kind == "grouping":
        for case in grouping_cases():
            col.case(case, case["shape"] != "chain", classes=("grouping:" + case["shape"],))
            for sig, detail in check_grouping(case):
                col.violation(sig, case, detail)
        return col
    if kind == "matrix":
        for cls, pos, term_name, inner, par in cells():
            if cls != arg:
                continue
            case = {"mode": "cell", "cls": cls, "pos": pos, "term": term_name, "inner": inner, "par": par}
            nt = pos not in ("top_select", "top_where")
            r = check_cell(cls, pos, term_name, inner, par)
            col.case(case, nt, classes=("term:" + term_name, "pos:" + pos, "inner:" + inner))
            if r is not None:
                col.violation(cell_sig(cls, pos, term_name, inner, r[0]), case, r[1])
        col.exhaustive = True
        return col
    nex = 120 if tier == "quick" else 2500

    @seed(arg)
    @settings(max_examples=nex, database=None, deadline=None, suppress_health_check=list(HealthCheck), report_multiple_bugs=False)
    @given(gen.statement(cls="generic", value_kinds=("int", "str"), features=FEATURES, depth=2))
    def prop(p):
        p = {k: v for k, v in p.items() if k != "markers"}
        try:
            prog.build_program(p)
        except Exception as e:
            col.count("build_raised:" + type(e).__name__)
            return
        case = {"mode": "neutral", "program": p}
        res = check_neutral(p)
        col.case(case, nesting_depth(p) >= 2, classes=("kind:" + p.get("kind", "?"), "depth:%d" % nesting_depth(p)))
        for sig, detail in res:
            col.violation(sig, case, detail)

    prop()
    return col
