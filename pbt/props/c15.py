"""C15 - copy, deepcopy and pickle round-trips preserve and decouple objects.

Domain   object graphs of every family (pbt/hist.py roots + tables with schema chains, Schema, Database, AliasedQuery,
         NOT wrappers around delegating calls, Interval) x {copy, deepcopy, pickle protocol 0..5} x a generated suffix of
         builder calls applied to the original and to the duplicate.
Oracle   preserve: same type, identical render snapshot, duplication raises nothing; decouple: after every suffix call the
         original and the duplicate still render as before and each derived object equals its linear twin; deepcopy/pickle
         graphs share no mutable container.
"""
from __future__ import annotations

import copy
import functools
import pickle

from hypothesis import HealthCheck, Phase, given, seed, settings, strategies as st

from pbt import gen, hist, prog, snap
from pbt.core import Collector, HarnessError, mksig
from pbt.props import c01

ID = "C15"
RULE = ("object graphs from every builder family plus tables with schema chains / temporal clauses / query_cls, Schema, Database, AliasedQuery, "
        "NOT-wrapped delegating calls and Interval, duplicated by copy.copy, copy.deepcopy or a pickle round trip (protocols 0-5), followed by up to 5 "
        "builder calls on either side; plus every (family, method) pair of every menu called on either side of a fresh duplicate (enumerated), with the object state (not only its renderings) compared. Non-trivial = the graph has a class with dynamic attribute lookup (Selectable, Schema, Database, Not) or a nested "
        "builder, and at least one suffix call; distinct = distinct (graph, mechanism, suffix).")
ASSUMPTIONS = [
    "copy.copy may share containers with the original as long as no builder call makes the sharing observable",
    "graphs are built through the public API only (no harness-defined classes), so everything is expected to pickle",
]

MECHS = ["copy", "deepcopy", "pickle0", "pickle1", "pickle2", "pickle3", "pickle4", "pickle5"]
EXTRA_FAMILIES = ["table_schema", "schema", "database", "aliasedquery", "not_delegate", "interval"]
K = gen.ALL_KEYS


def duplicate(o, mech):
    if mech == "copy":
        return copy.copy(o)
    if mech == "deepcopy":
        return copy.deepcopy(o)
    return pickle.loads(pickle.dumps(o, protocol=int(mech[-1])))


@st.composite
def extra_root(draw, family):
    if family == "table_schema":
        schema = draw(st.sampled_from([None, "s", ["d", "s"], ["schema", "s", None], ["schema", "s", ["database", "d"]], ["schema", "s", ["schema", "d", None]]]))
        extra = draw(st.sampled_from([None, {"query_cls": "mysql"}, {"for": ["between", ["systime"], ["raw", "a"], ["raw", "b"]]},
                                      {"for_portion": ["from_to", ["systime"], ["raw", "a"], ["raw", "b"]]}]))
        alias = draw(st.sampled_from([None, "x"]))
        return {"root": "src", "key": "Z", "sources": {"Z": ["tbl", "t9", schema, alias, extra]}, "steps": []}
    if family == "schema":
        return {"root": "term", "term": ["schemaobj", draw(st.sampled_from(["s", ["schema", "s", ["database", "d"]], ["schema", "s", ["schema", "p", None]]]))], "sources": {}}
    if family == "database":
        return {"root": "term", "term": ["schemaobj", ["database", "d"]], "sources": {}}
    if family == "aliasedquery":
        return {"root": "term", "term": ["aliasedq", "cte1", draw(st.one_of(st.none(), gen.simple_select()))], "sources": {}}
    if family == "not_delegate":
        c = draw(gen.col(K))
        inner = draw(st.sampled_from(["plain", "isin", "like", "nested"]))
        t = ["not", c, "cls"]
        if inner == "isin":
            t = ["call", t, "isin", [["pylist", [["raw", 1], ["raw", 2]]]]]
        elif inner == "like":
            t = ["call", t, "like", [["raw", "a%"]]]
        elif inner == "nested":
            t = ["not", ["not", ["eq", c, ["raw", 1]], "cls"], "cls"]
        return {"root": "term", "term": t, "sources": {}}
    if family == "interval":
        return {"root": "term", "term": ["interval", draw(st.sampled_from([{"days": 1}, {"hours": 2, "seconds": 5}, {"quarters": 1}, {"years": -1, "months": 2}]))], "sources": {}}
    raise AssertionError(family)


def family_for_menu(family):
    return "table" if family == "table_schema" else family


@functools.lru_cache(maxsize=None)
def method_matrix():
    """(family, method name) over every family with a menu: each method is reached with the same probability whatever the size of its menu"""
    out = []
    for fam in hist.FAMILIES:
        for name in sorted({s.name for s in hist.menu(fam)}):
            out.append((fam, name))
    return out


@st.composite
def matrix_case(draw, family, name):
    """one or two calls of ONE method on one side of a fresh duplicate; the (family, method) pairs are enumerated, not drawn"""
    root = draw(hist.root(family))
    mech = draw(st.sampled_from(MECHS))
    suffix = []
    for _ in range(draw(st.integers(1, 2))):
        st_ = draw(hist.one_of_steps([s for s in hist.menu(family) if s.name == name]))
        suffix.append([draw(st.sampled_from(["o", "d"])), st_])
    return {"family": family, "root": root, "mech": mech, "suffix": suffix, "matrix": True}


@st.composite
def cases(draw):
    fams = hist.FAMILIES + EXTRA_FAMILIES * 3
    family = draw(st.sampled_from(fams))
    root = draw(extra_root(family)) if family in EXTRA_FAMILIES else draw(hist.root(family))
    mech = draw(st.sampled_from(MECHS))
    suffix = []
    mf = family_for_menu(family)
    if mf in hist.FAMILIES:
        n = draw(st.integers(0, 5))
        fam_o = fam_d = mf
        for _ in range(n):
            who = draw(st.sampled_from(["o", "d"]))
            f = fam_o if who == "o" else fam_d
            st_ = draw(hist.one_of_steps(hist.menu(f)))
            suffix.append([who, st_])
            if who == "o":
                fam_o = hist.result_family(f, st_)
            else:
                fam_d = hist.result_family(f, st_)
    return {"family": family, "root": root, "mech": mech, "suffix": suffix}


def check(case, stats=None):
    out = []
    family, root, mech = case["family"], case["root"], case["mech"]
    mf = family_for_menu(family)
    try:
        o = hist.build_root(root)
    except RecursionError:
        return [(mksig(family, "build", "raises:RecursionError"), "building the graph (which copies through @builder) raised RecursionError")]
    except Exception as e:  # root programs are valid by construction; @builder copies with copy.copy
        return [(mksig(family, "build", "raises:" + type(e).__name__), "building the graph (which copies through @builder) raised %r" % (e,))]
    cname = type(o).__name__
    snap0 = snap.render_snapshot(o)
    try:
        d = duplicate(o, mech)
    except RecursionError:
        return [(mksig(cname, mech, "raises:RecursionError"), "duplicating %s by %s raised RecursionError" % (cname, mech))]
    except Exception as e:
        return [(mksig(cname, mech, "raises:" + type(e).__name__), "duplicating %s by %s raised %r" % (cname, mech, e))]
    if type(d) is not type(o):
        out.append((mksig(cname, mech, "type"), "duplicate is a %s" % type(d).__name__))
        return out
    snapd = snap.render_snapshot(d)
    if snapd != snap0:
        k = snap.diff_keys(snapd, snap0)
        out.append((mksig(cname, mech, "renders_differently"), "%s: duplicate %r vs original %r" % (k[:3], snapd.get(k[0]), snap0.get(k[0]))))
        return out
    if snap.render_snapshot(o) != snap0:
        out.append((mksig(cname, mech, "original_changed_by_duplication"), ""))
    if mech != "copy" and stats is not None:
        # a container shared by a deep copy and its original is a latent coupling, not yet one: the property is decided by the builder
        # calls below (state of the other side compared after each); sharing is only counted
        shared = snap.shared_mutables(o, d)
        if shared:
            stats["shared_container:%s:%s" % (cname, shared[0])] = stats.get("shared_container:%s:%s" % (cname, shared[0]), 0) + 1
    cur = {"o": o, "d": d}
    fam = {"o": mf, "d": mf}
    steps = {"o": [], "d": []}
    for who, st_ in case["suffix"]:
        recv = cur[who]
        other = "d" if who == "o" else "o"
        # what the call must leave alone: the other side - its root object and the object derived there so far.
        # (What the call does to its own receiver is C01's question, not C15's.)
        watched = [(other, "root", o if other == "o" else d)]
        if cur[other] is not watched[0][2]:
            watched.append((other, "derived", cur[other]))
        before = [(snap.render_snapshot(x), snap.struct_snapshot(x)) for _, _, x in watched]
        mname = c01.defining_class(recv, st_[0])
        res, exc = hist.apply(recv, st_, fam[who])
        if exc is None and res is not None and type(res).__name__ != "Joiner":
            cur[who] = res
            steps[who] = steps[who] + [st_]
            fam[who] = hist.result_family(fam[who], st_)
        side_name = {"o": "original", "d": "duplicate"}
        for (w, what, x), (r0, s0) in zip(watched, before):
            r1 = snap.render_snapshot(x)
            if r1 != r0:
                k = snap.diff_keys(r1, r0)
                out.append((mksig(mname, st_[0], mech, "coupled"), "%s.%s on the %s side changed the %s object of the %s side (%s)" % (mname, st_[0], side_name[who], what, side_name[w], k[:3])))
                return out
            # the state itself, not only what the renderings show of it (a shared list may belong to a clause this statement kind never prints)
            s1 = snap.struct_snapshot(x)
            if s1 != s0:
                out.append((mksig(mname, st_[0], mech, "coupled_state"), "%s.%s on the %s side changed the state of the %s object of the %s side: %s" % (
                    mname, st_[0], side_name[who], what, side_name[w], str(snap.struct_diff(s0, s1))[:300])))
                return out
        # objects derived from the duplicate behave like objects derived from a fresh build of the same graph
        if who == "d" and cur["d"] is not d:
            tw = snap.render_snapshot(c01.rebuild(root, steps["d"], mf))
            now = snap.render_snapshot(cur["d"])
            if now != tw:
                k = snap.diff_keys(now, tw)
                out.append((mksig(mname, st_[0], mech, "derived_mismatch"), "object derived from the duplicate differs from its linear twin in %s: %r vs %r" % (k[:3], now.get(k[0]), tw.get(k[0]))))
                return out
    return out


# ---- a builder call on one side that takes an object of the OTHER side's graph as argument -----------------------------------------

# (joining the original's own un-aliased TABLE object is left out: the join writes the self-join alias onto its argument - the documented side
# effect - and that argument is a part of the original)
SHARED_ARG_CALLS = ("join_own_subquery", "from_own_subquery", "where_in_own_subquery", "union_own_subquery")


def shared_arg_cases():
    for cls in prog.CLS_NAMES:
        for mech in MECHS:
            for call in SHARED_ARG_CALLS:
                for side in ("d", "o"):
                    yield {"family": "shared_arg", "cls": cls, "mech": mech, "call": call, "side": side}


def check_shared_arg(case):
    """q holds an (automatically aliased) subquery and a table; dup is its duplicate. A call on one of them that is handed the subquery / table
    object of the original must not change what the other renders."""
    import pypika_tortoise as P

    Q = prog.query_cls(case["cls"])
    t, u = P.Table("t"), P.Table("u")
    sub = Q.from_(u).select(u.a, u.b)
    q = Q.from_(sub).join(t).on(t.a == sub.a).select(sub.b, t.c)
    try:
        d = duplicate(q, case["mech"])
        recv, other = (d, q) if case["side"] == "d" else (q, d)
        before = snap.render_snapshot(other)
        c = case["call"]
        if c == "join_own_subquery":
            recv.join(sub).on(sub.a == 1)
        elif c == "from_own_subquery":
            recv.from_(sub)
        elif c == "where_in_own_subquery":
            recv.where(t.a.isin(sub))
        else:
            recv.union(sub)
    except Exception as e:
        if type(e).__module__.startswith("pypika_tortoise"):
            return []
        return [(mksig("shared_arg", "raises", type(e).__name__), repr(e))]
    after = snap.render_snapshot(other)
    if after != before:
        k = snap.diff_keys(after, before)
        return [(mksig("shared_arg", "other_side_changed", case["call"]), "%s on the %s (argument: an object of the original's graph) changed what the %s renders: %r -> %r" % (
            case["call"], "duplicate" if case["side"] == "d" else "original", "original" if case["side"] == "d" else "duplicate", before.get(k[0]), after.get(k[0])))]
    return []


def check_case(case):
    if case.get("family") == "shared_arg":
        return check_shared_arg(case)
    return check(case)


def valid_case(case):
    try:
        if case.get("family") == "shared_arg":
            return case in list(shared_arg_cases())
        return case["mech"] in MECHS and isinstance(case["root"], dict) and all(w in ("o", "d") and isinstance(s, list) and len(s) >= 2 for w, s in case["suffix"])
    except (Exception, HarnessError):
        return False


DYNAMIC = ("table", "table_schema", "schema", "database", "aliasedquery", "not", "not_delegate", "setop")


def nontrivial(case):
    f = case["family"]
    dyn = f in DYNAMIC or f.startswith("qb:")
    return dyn and (len(case["suffix"]) > 0 or f in ("schema", "database", "aliasedquery", "not_delegate", "table_schema"))


def shards(tier, sd):
    n = 8 if tier == "quick" else 32
    return [(tier, sd * 1000 + k) for k in range(n)] + [("matrix:" + tier, sd * 1000 + 500 + k) for k in range(8)] + [("shared_arg", 0)]


def run_shard(shard):
    tier, sd = shard
    col = Collector()
    if tier == "shared_arg":
        for case in shared_arg_cases():
            col.case(case, True, classes=("shared_arg:" + case["call"],))
            for sig, detail in check_shared_arg(case):
                col.violation(sig, case, detail)
        return col
    if tier.startswith("matrix:"):
        # every (family, method) pair of every menu, a few generated receivers / arguments / mechanisms each
        k = sd % 8
        per = 5 if tier.endswith("quick") else 40
        pairs = method_matrix()
        for idx in range(k, len(pairs), 8):
            family, name = pairs[idx]

            @seed(sd * 1000 + idx)
            @settings(max_examples=per, database=None, deadline=None, suppress_health_check=list(HealthCheck), report_multiple_bugs=False, phases=[Phase.generate])
            @given(matrix_case(family, name))
            def one(case):
                stats = {}
                res = check(case, stats)
                for k_, v_ in stats.items():
                    col.count(k_, v_)
                col.case(case, nontrivial(case), classes=("mech:" + case["mech"], "family:" + case["family"], "matrix"))
                for sig, detail in res:
                    col.violation(sig, case, detail)

            one()
        col.notes["method_matrix_pairs"] = len(pairs)
        return col
    nex = 400 if tier == "quick" else 4000

    @seed(sd)
    @settings(max_examples=nex, database=None, deadline=None, suppress_health_check=list(HealthCheck), report_multiple_bugs=False)
    @given(cases())
    def prop(case):
        stats = {}
        res = check(case, stats)
        for k_, v_ in stats.items():
            col.count(k_, v_)
        col.case(case, nontrivial(case), classes=("mech:" + case["mech"], "family:" + case["family"], "suffix:%d" % len(case["suffix"])))
        for sig, detail in res:
            col.violation(sig, case, detail)

    prop()
    return col
