"""C16 - replace_table replaces every reference and nothing else.

Domain   (a) terms: Hypothesis-generated expressions over every composite term kind with fields of OLD and OTHER tables at every
         operand slot; (b) statements: structured generator (all statement kinds, six classes) plus explicit templates that put
         OLD into every clause slot (FROM, JOIN item, ON, USING, select, star, WHERE, PREWHERE, GROUP BY, HAVING, ORDER BY, INSERT
         target / columns / values, INSERT..SELECT, UPDATE target / SET target / SET value / FROM, DELETE, CTE body, subquery in
         FROM / IN / select list, ON CONFLICT target / update / where, RETURNING, DISTINCT ON, window PARTITION / ORDER,
         aggregate FILTER); table pairs plain/plain, plain/aliased, aliased/plain, schema-qualified, (OLD, None) for terms.
Oracle   R = build(p).replace_table(OLD, NEW) must render like E = build(p with NEW written instead of OLD) under all six
         contexts (terms: with namespaces forced); an independent __dict__ walk of R finds no table equal to OLD; the receiver is
         unchanged; no exception.
"""
from __future__ import annotations

import enum
import json
import types

from hypothesis import HealthCheck, given, seed, settings, strategies as st

from pbt import gen, prog, snap
from pbt.core import Collector, HarnessError, mksig

ID = "C16"
RULE = ("terms: random expressions over all composite term kinds with OLD/OTHER fields; statements: structured generator + one explicit template per clause "
        "slot, each under six classes; table pairs plain/plain, plain/aliased, aliased/plain, schema-qualified. Non-trivial = OLD occurs below the top node "
        "(terms) or in >= 2 clause slots (statements); distinct = distinct (program, table pair). Also: every Term subclass of the live package (instance on table t, token-level rename oracle), "
        "sources that are themselves queries / set operations over OLD, and one more select() on the result compared with the same call on the fresh construction.")
ASSUMPTIONS = [
    "table equality is the library's (name, schema, alias): replacing Table('t') also replaces an equal distinct instance and does not replace t AS x",
    "new_table=None is only meaningful for terms and is not generated for statements",
]

CTXS = prog.CLS_NAMES
OLD_SPECS = {"plain": ["tbl", "t1", None, None], "aliased": ["tbl", "t1", None, "oo"], "schema": ["tbl", "t1", "s1", None]}
NEW_SPECS = {"plain": ["tbl", "n9", None, None], "aliased": ["tbl", "n9", None, "nn"], "schema": ["tbl", "n9", "s9", None]}
PAIRS = [("plain", "plain"), ("plain", "aliased"), ("aliased", "plain"), ("schema", "plain"), ("plain", "schema"), ("aliased", "aliased"), ("temporal", "temporal")]
# "temporal": the statement reads the old table through a temporal clause (t1 FOR SYSTEM_TIME ..), the call names the plain tables:
# the same construction with the new table reads n9 through that clause
_FOR = {"for": ["between", ["systime"], ["raw", "2020-01-01"], ["raw", "2020-02-01"]]}
OLD_SPECS["temporal"] = ["tbl", "t1", None, None, _FOR]
NEW_SPECS["temporal"] = ["tbl", "n9", None, None, _FOR]
CALL_SPECS = {"temporal": (["tbl", "t1", None, None], ["tbl", "n9", None, None])}


def sources(old_kind):
    s = dict(gen.SOURCES)
    s["T"] = OLD_SPECS[old_kind]
    if old_kind == "aliased":
        s["X"] = ["tbl", "t1", None, "x2"]
    s["TT"] = list(OLD_SPECS[old_kind])  # a second object for the same table (self-joins)
    return s


def find_tables(o, old, path="", holder=None, out=None, seen=None, depth=0):
    """independent walk of the object graph: every Table equal to `old` with the path that leads to it"""
    from pypika_tortoise import Table

    if out is None:
        out, seen = [], set()
    if o is None or isinstance(o, (bool, int, float, str, bytes, enum.Enum, type, types.FunctionType)):
        return out
    if id(o) in seen or depth > 60:
        return out
    seen.add(id(o))
    if isinstance(o, Table):
        if o == old:
            out.append((path, holder))
        # a table's own temporal criteria may mention tables as well
    if isinstance(o, (list, tuple, set, frozenset)):
        for x in o:
            find_tables(x, old, path + "[]", holder, out, seen, depth + 1)
    elif isinstance(o, dict):
        for k, v in o.items():
            find_tables(v, old, path + "." + str(k), holder, out, seen, depth + 1)
    else:
        d = getattr(o, "__dict__", None)
        if d is not None:
            for k, v in d.items():
                if k == "table" and type(o).__name__ in ("Field", "Star") and not isinstance(v, Table):
                    continue  # a field of a subquery uses it as a namespace (alias) only; the subquery itself is checked where it is a source
                if k in ("_query_cls", "QUERY_CLS", "_wrapper_cls", "original_value"):
                    continue  # Array.original_value is the raw argument list kept for parameterisation, not a reference
                find_tables(v, old, path + "." + k, type(o).__name__, out, seen, depth + 1)
    return out


def top_attr(path):
    parts = [p for p in path.replace("[]", "").split(".") if p]
    return parts[0] if parts else "?"


UNRENDERED: list = []  # paths of references to the old table that no rendering shows (reported in the evidence notes, never as a violation)


def compare(p, old_kind, new_kind, root_is_term):
    """-> list of (sig, detail)"""
    out = []
    src = dict(sources(old_kind), **p.get("extra_sources", {}))
    prog_full = dict(p, sources=src)
    new_spec = NEW_SPECS[new_kind]
    try:
        recv = prog.build_program(prog_full)
        expect = prog.build_program(prog_full, subst={"T": new_spec, "TT": list(new_spec)})
    except Exception:
        return [("__build__", "")]
    call_old, call_new = CALL_SPECS.get(old_kind, (OLD_SPECS[old_kind], None))[0], CALL_SPECS.get(new_kind, (None, new_spec))[1]
    env = prog.Env("generic", {"T": call_old, "N": call_new})
    old, new = env.src("T"), env.src("N")
    cname = type(recv).__name__
    before = snap.render_snapshot(recv, meta=False)
    try:
        res = recv.replace_table(old, new)
    except RecursionError:
        return [(mksig("raised", "RecursionError", cname), "replace_table raised RecursionError")]
    except Exception as e:
        return [(mksig("raised", type(e).__name__, _where_raised(e)), "replace_table on %s raised %r" % (cname, e))]
    if snap.render_snapshot(recv, meta=False) != before:
        out.append((mksig("receiver_changed", cname), "the receiver renders differently after replace_table"))
    # the property speaks of the rendering: the walk of the object graph only NAMES the place (and so the root cause) once a rendering differs;
    # a reference that no rendering shows is counted, not reported
    left = find_tables(res, old) if OLD_SPECS[old_kind] != new_spec else []
    differs = None
    for cn in CTXS:
        ctx = prog.sql_context(cn)
        if root_is_term:
            ctx = ctx.copy(with_namespace=True)
        a, b = snap._try(lambda: res.get_sql(ctx)), snap._try(lambda: expect.get_sql(ctx))
        if a != b:
            differs = (cn, a, b)
            break
    if differs is None and not root_is_term and hasattr(res, "select") and getattr(res, "_selects", None) and not getattr(res, "_insert_table", None):
        # "the same construction carried out with new from the start" also continues the same way: one more select() on both
        try:
            zz = new.field("zz9")
            res2, exp2 = res.select(zz), expect.select(zz)
            for cn in CTXS:
                ctx = prog.sql_context(cn)
                a, b = snap._try(lambda: res2.get_sql(ctx)), snap._try(lambda: exp2.get_sql(ctx))
                if a != b:
                    out.append((mksig("continuation_differs", _kind(p), _first_clause_diff(a, b)), "under %s: select(new.zz9) after replace_table gives %r, on the construction with the new table %r" % (cn, a, b)))
                    break
        except Exception as e:
            out.append((mksig("continuation_raises", type(e).__name__), "select() on the result of replace_table raised %r" % (e,)))
    if differs and left:
        path, holder = left[0]
        out.append((mksig("kept_old", top_attr(path) if not root_is_term else "term", _base(holder or cname)),
                    "a reference to the old table survives at %s (held by %s): under %s replace_table gives %r, building with the new table gives %r" % (path, holder, differs[0], differs[1], differs[2])))
    elif differs and old_kind == "temporal" and "FOR SYSTEM_TIME" in (differs[2] or "") and "FOR SYSTEM_TIME" not in (differs[1] or ""):
        # one root cause wherever the source stands: the temporal clause of the replaced source is gone
        out.append((mksig("temporal_clause_dropped"), "under %s: replace_table gives %r, building with the new table gives %r" % differs))
    elif differs:
        cn, a, b = differs
        out.append((mksig("differs", cname if root_is_term else _kind(p), _first_clause_diff(a, b)), "under %s: replace_table gives %r, building with the new table gives %r" % (cn, a, b)))
    elif left:
        UNRENDERED.append(left[0][0])
    return out


def _base(name):
    return "QueryBuilder" if name.endswith("QueryBuilder") else name


def _where_raised(e):
    import traceback

    tb = traceback.extract_tb(e.__traceback__)
    for fr in reversed(tb):
        if "pypika_tortoise" in fr.filename and fr.name == "replace_table":
            return "line:%s" % fr.line.strip()[:60].replace(" ", "_")
    return "?"


def _safe_sql(o, term):
    try:
        return o.get_sql(prog.sql_context("generic").copy(with_namespace=True)) if term else str(o)
    except Exception as e:
        return "EXC:" + type(e).__name__


def _kind(p):
    return p.get("kind", "stmt")


def _first_clause_diff(a, b):
    if not isinstance(a, str) or not isinstance(b, str):
        return "exc"
    i = 0
    while i < min(len(a), len(b)) and a[i] == b[i]:
        i += 1
    head = a[:i].upper()
    best = ("START", -1)
    for kw in ("SELECT", "FROM", "JOIN", " ON ", "WHERE", "GROUP BY", "HAVING", "ORDER BY", "SET", "VALUES", "RETURNING", "ON CONFLICT", "DO UPDATE", "WITH", "USING", "INTO", "UPDATE", "DISTINCT ON"):
        j = head.rfind(kw)
        if j > best[1]:
            best = (kw.strip().replace(" ", "_"), j)
    return best[0]


# ---- (a) terms ------------------------------------------------------------------------------------------------------

KEYS = ("T", "T", "U", "X")


def fcol():
    return st.tuples(st.just("col"), st.sampled_from(KEYS), st.sampled_from(("a", "b"))).map(list)


def expr_st():
    leaf = st.one_of(fcol(), fcol(), st.sampled_from([1, "v"]).map(lambda v: ["vw", ["raw", v]]), st.tuples(st.just("star"), st.sampled_from(("T", "U"))).map(list))
    cmp_kinds = ("eq", "ne", "lt", "ge")

    def extend(ch):
        fc = fcol()
        cmp_ = st.tuples(st.sampled_from(cmp_kinds), ch, ch).map(list)
        sub = st.just({"cls": "inherit", "sources": {}, "steps": [["from_", [["src", "T"]]], ["select", [["col", "T", "a"]]], ["where", [["eq", ["col", "T", "b"], ["col", "U", "b"]]]]]})
        return st.one_of(
            st.tuples(st.sampled_from(("add", "sub", "mul", "div")), ch, ch).map(list), cmp_,
            st.tuples(st.sampled_from(("and", "or")), cmp_, cmp_).map(list),
            st.tuples(st.just("neg"), ch).map(list), st.tuples(st.just("not"), cmp_).map(list), st.tuples(st.just("not"), cmp_, st.just("cls")).map(list),
            st.tuples(st.just("isnull"), ch).map(list), st.tuples(st.just("notnull"), ch).map(list),
            st.tuples(st.sampled_from(("in", "notin")), ch, st.lists(ch, min_size=1, max_size=2)).map(list),
            st.tuples(st.just("in"), ch, st.tuples(st.just("q"), sub).map(list)).map(list),
            st.tuples(st.just("between"), ch, ch, ch).map(list), st.tuples(st.just("from_to"), ch, ch, ch).map(list),
            st.tuples(st.just("bitand"), ch, st.just(3)).map(list), st.tuples(st.just("like"), ch, ch).map(list),
            st.tuples(st.just("case"), st.lists(st.tuples(cmp_, ch).map(list), min_size=1, max_size=2), st.one_of(st.none(), ch)).map(list),
            st.tuples(st.just("cfn"), st.just("COALESCE"), st.lists(ch, min_size=1, max_size=3)).map(list),
            st.tuples(st.just("fn"), st.sampled_from(["Sum", "Max", "Count", "Upper"]), st.tuples(ch).map(list)).map(list),
            st.tuples(st.just("call"), st.tuples(st.just("fn"), st.sampled_from(["Sum", "Avg"]), st.tuples(ch).map(list)).map(list), st.just("filter"), st.tuples(cmp_).map(list)).map(list),
            st.tuples(st.just("call"), st.tuples(st.just("an"), st.sampled_from(["Sum", "Max"]), st.tuples(fc).map(list)).map(list), st.just("over"), st.lists(fc, min_size=1, max_size=2)).map(list),
            st.tuples(st.just("call"), st.tuples(st.just("an"), st.just("Rank"), st.just([])).map(list), st.just("orderby"), st.lists(fc, min_size=1, max_size=2)).map(list),
            st.tuples(st.sampled_from(("tuple", "array")), st.lists(ch, min_size=1, max_size=3)).map(list), st.tuples(st.just("bracket"), ch).map(list),
            st.tuples(st.sampled_from(("pow", "mod")), ch, st.just(["raw", 2])).map(list),
            st.tuples(st.just("extract"), st.just(["enum", "DatePart", "year"]), fc).map(list), st.tuples(st.just("values"), fc).map(list),
            st.tuples(st.just("attz"), fc, st.just("UTC")).map(list), st.tuples(st.just("all"), ch).map(list),
            st.tuples(st.just("as"), ch, st.sampled_from(["al"])).map(list), st.tuples(st.just("cast"), ch, st.just("INT")).map(list),
            st.tuples(st.just("nested"), ch, ch, ch).map(list),
            st.tuples(st.just("subq"), sub).map(list),
        )

    def ok(node):
        # QueryBuilder.__eq__/__ne__ compare aliases and return bool: a subquery is never the left operand of ==/!=
        # (also behind an alias: ["as", ["subq", ..], name] is still the QueryBuilder)
        txt = json.dumps(node)
        # ... and + - * on a QueryBuilder are set operations (UNION / MINUS / INTERSECT), whose == is a comparison of aliases again
        return not any(('["%s", %s["subq"' % (op, pre)) in txt for op in ("eq", "ne", "add", "sub", "mul") for pre in ("", '["as", '))

    return st.recursive(leaf, extend, max_leaves=7).filter(ok)


def minimal_term_sig(node, old_kind, new_kind):
    """find the smallest failing sub-expression and name the violation after its node kind"""
    subs = []

    def walk(n):
        if isinstance(n, list) and n and isinstance(n[0], str):
            for x in n[1:]:
                walk_any(x)
            if n[0] not in ("raw", "vw", "enum", "py", "src"):
                subs.append(n)

    def walk_any(x):
        if isinstance(x, list):
            if x and isinstance(x[0], str):
                walk(x)
            else:
                for y in x:
                    walk_any(y)
        elif isinstance(x, dict):
            pass

    walk(node)
    res = []
    failing = []
    for sub in subs:
        contained = any(f is not sub and _contains(sub, f) for f in failing)
        if contained:
            failing.append(sub)
            continue
        try:
            r = compare({"root": "term", "term": sub}, old_kind, new_kind, True)
        except HarnessError:
            continue
        r = [x for x in r if x[0] != "__build__"]
        if r:
            failing.append(sub)
            k = sub[0] if sub[0] != "call" else "call:" + sub[2]
            for sig, detail in r:
                kind = sig.split("|")[0]
                if kind == "raised":
                    res.append((sig, detail))
                else:
                    res.append((mksig(kind, "term", k), "%s: %s" % (json.dumps(sub)[:200], detail)))
    return res


def _contains(outer, inner):
    if outer is inner:
        return True
    if isinstance(outer, list):
        return any(_contains(x, inner) for x in outer)
    return False


# ---- (b) statements -------------------------------------------------------------------------------------------------

A, B = ["col", "T", "a"], ["col", "T", "b"]
UA = ["col", "U", "a"]
SUB_T = {"cls": "inherit", "sources": {}, "steps": [["from_", [["src", "T"]]], ["select", [["col", "T", "a"]]], ["where", [["gt", ["col", "T", "b"], ["raw", 1]]]]]}
J = lambda how, then: ["join", [["src", "T"], ["enum", "JoinType", how]], {}, then]  # noqa: E731


SUB_U = {"cls": "inherit", "sources": {}, "steps": [["from_", [["src", "U"]]], ["select", [["col", "U", "a"]]]]}
# sources that are themselves queries over OLD, addressed through their own alias: their fields must stay theirs
XSRC = {"SP": ["sub", SUB_T, None, {"preused": True}],
        "SU": ["sub", {"cls": "inherit", "sources": {}, "steps": SUB_T["steps"] + [["union", [["q", SUB_U]]]]}, "su"],
        "SQ": ["sub", SUB_T, "sq"]}
XTEMPLATES = {
    # a subquery over OLD that an earlier statement has given its automatic sq0, as select item / ORDER BY term / comparison operand
    "preused_subquery_joined": [["from_", [["src", "U"]]], ["select", [UA, ["col", "SP", "a"]]], ["join", [["src", "SP"], ["enum", "JoinType", "left"]], {}, ["on", [["eq", UA, ["col", "SP", "a"]]]]]],
    "preused_subquery_select_item": [["from_", [["src", "U"]]], ["select", [UA, ["src", "SP"]]], ["orderby", [["src", "SP"]]]],

    "setop_source_from_field": [["from_", [["src", "SU"]]], ["select", [["col", "SU", "a"]]], ["where", [["gt", ["col", "SU", "a"], ["raw", 1]]]]],
    "setop_source_join_field": [["from_", [["src", "U"]]], ["join", [["src", "SU"], ["enum", "JoinType", "inner"]], {}, ["on", [["eq", UA, ["col", "SU", "a"]]]]], ["select", [UA, ["col", "SU", "a"]]]],
    "subquery_source_from_field": [["from_", [["src", "SQ"]]], ["select", [["col", "SQ", "a"]]], ["orderby", [["col", "SQ", "a"]]]],
    "subquery_source_join_field": [["from_", [["src", "U"]]], ["join", [["src", "SQ"], ["enum", "JoinType", "left"]], {}, ["on", [["eq", UA, ["col", "SQ", "a"]]]]], ["select", [["col", "SQ", "a"]]]],
}


def templates(cls):
    t = {
        "from": [["from_", [["src", "T"]]], ["select", [UA]]],
        "join_item_on": [["from_", [["src", "U"]]], J("left", ["on", [["eq", UA, A]]]), ["select", [UA, B]]],
        "join_using": [["from_", [["src", "U"]]], J("inner", ["using", [["py", "a"]]]), ["select", [UA]]],
        "join_cross": [["from_", [["src", "U"]]], J("cross", ["cross", []]), ["select", [UA, A]]],
        "select_star": [["from_", [["src", "T"]]], ["join", [["src", "U"], ["enum", "JoinType", "inner"]], {}, ["on", [["eq", UA, A]]]], ["select", [["star", "T"], UA]]],
        "where": [["from_", [["src", "U"]]], ["select", [UA]], ["where", [["eq", A, ["raw", 1]]]]],
        "prewhere": [["from_", [["src", "U"]]], ["select", [UA]], ["prewhere", [["eq", A, ["raw", 1]]]]],
        "groupby_having_orderby": [["from_", [["src", "T"]]], ["join", [["src", "U"], ["enum", "JoinType", "inner"]], {}, ["on", [["eq", UA, A]]]], ["select", [A, ["fn", "Sum", [B]]]], ["groupby", [A]], ["having", [["gt", ["fn", "Sum", [B]], ["raw", 1]]]], ["orderby", [B]]],
        "insert_target_columns_values": [["into", [["src", "T"]]], ["columns", [A, ["py", "b"]]], ["insert", [["raw", 1], ["raw", 2]]]],
        "insert_select": [["into", [["src", "U"]]], ["from_", [["src", "T"]]], ["select", [A, B]], ["where", [["gt", B, ["raw", 0]]]]],
        # a VALUES row of an insert INTO another table holds a scalar subquery over OLD
        "insert_values_subquery": [["into", [["src", "U"]]], ["columns", [["py", "a"], ["py", "b"]]], ["insert", [["subq", SUB_T], ["raw", 2]]], ["insert", [["raw", 3], ["subq", SUB_T]]]],
        # date arithmetic: an Interval (a Node that is not a Term) next to fields of OLD
        "interval_arith": [["from_", [["src", "T"]]], ["select", [["add", A, ["interval", {"days": 1}]]]], ["where", [["gt", B, ["sub", ["fn", "Now", []], ["interval", {"hours": 2, "minutes": 5}]]]]]],
        "interval_fn_arg": [["from_", [["src", "T"]]], ["join", [["src", "U"], ["enum", "JoinType", "inner"]], {}, ["on", [["eq", UA, A]]]], ["select", [["fn", "Coalesce", [["add", B, ["interval", {"weeks": 1}]], UA]]]]],
        "custom_function": [["from_", [["src", "T"]]], ["join", [["src", "U"], ["enum", "JoinType", "inner"]], {}, ["on", [["eq", UA, A]]]], ["select", [["customfn", "f", ["x", "y", "z"], [A, UA, ["raw", 3]]]]], ["where", [["gt", ["customfn", "g", ["x"], [B]], ["raw", 0]]]]],
        "update_set": [["update", [["src", "T"]]], ["set", [A, ["add", B, ["raw", 1]]]], ["where", [["eq", A, ["raw", 1]]]]],
        "update_set_value_other": [["update", [["src", "U"]]], ["from_", [["src", "T"]]], ["set", [["col", "U", "b"], B]], ["where", [["eq", UA, A]]]],
        "delete": [["from_", [["src", "T"]]], ["delete", []], ["where", [["eq", A, ["raw", 1]]]]],
        "cte_body": [["with_", [["q", SUB_T], ["py", "c1"]]], ["from_", [["cte", "c1"]]], ["select", [["py", "a"]]]],
        "sub_from": [["from_", [["q", SUB_T]]], ["select", [["py", "a"]]]],
        "sub_in": [["from_", [["src", "U"]]], ["select", [UA]], ["where", [["in", UA, ["q", SUB_T]]]]],
        "sub_select": [["from_", [["src", "U"]]], ["select", [UA, ["as", ["subq", SUB_T], "s"]]]],
        "sub_join": [["from_", [["src", "U"]]], ["join", [["q", SUB_T], ["enum", "JoinType", "inner"]], {}, ["on", [["eq", UA, ["raw", 1]]]]], ["select", [UA]]],
        "upsert": [["into", [["src", "T"]]], ["insert", [["raw", 1], ["raw", 2]]], ["on_conflict", [A]], ["do_update", [B, ["add", B, ["raw", 1]]]], ["where", [["gt", B, ["raw", 0]]]]],
        "upsert_target_where": [["into", [["src", "T"]]], ["insert", [["raw", 1], ["raw", 2]]], ["on_conflict", [["py", "a"]]], ["where", [["gt", A, ["raw", 0]]]], ["do_update", [["py", "b"], ["raw", 3]]]],
        "window": [["from_", [["src", "T"]]], ["join", [["src", "U"], ["enum", "JoinType", "inner"]], {}, ["on", [["eq", UA, A]]]], ["select", [["call", ["call", ["an", "Sum", [B]], "over", [A]], "orderby", [B]]]]],
        # the handler of an upsert INTO another table refers to OLD (scalar subqueries in the SET value and in both WHEREs)
        "upsert_other_target": [["into", [["src", "U"]]], ["insert", [["raw", 1], ["raw", 2]]], ["on_conflict", [["py", "a"]]], ["where", [["gt", ["col", "U", "a"], ["subq", SUB_T]]]],
                                ["do_update", [["py", "b"], ["subq", SUB_T]]], ["where", [["in", ["col", "U", "b"], ["q", SUB_T]]]]],
        "upsert_select_other_target": [["into", [["src", "U"]]], ["from_", [["src", "T"]]], ["select", [A, B]], ["where", [["gt", B, ["raw", 0]]]], ["on_conflict", [["py", "a"]]],
                                       ["do_update", [["py", "b"], ["subq", SUB_T]]]],
        "window_filter": [["from_", [["src", "T"]]], ["join", [["src", "U"], ["enum", "JoinType", "inner"]], {}, ["on", [["eq", UA, A]]]],
                          ["select", [["call", ["call", ["call", ["an", "Sum", [B]], "filter", [["gt", A, ["raw", 1]]]], "over", [A]], "orderby", [B]]]]],
        "agg_filter": [["from_", [["src", "T"]]], ["join", [["src", "U"], ["enum", "JoinType", "inner"]], {}, ["on", [["eq", UA, A]]]], ["select", [["call", ["fn", "Sum", [B]], "filter", [["gt", A, ["raw", 1]]]]]]],
        "setop": [["from_", [["src", "T"]]], ["select", [A]], ["union", [["q", SUB_T]]]],
        "force_index_for_update": [["from_", [["src", "T"]]], ["select", [A]], ["force_index", [["py", "ix"]]], ["for_update", []]],
    }
    # the right operand of a bit test is a column of OLD
    t["bitand_column_operand"] = [["from_", [["src", "U"]]], J("inner", ["on", [["eq", UA, A]]]), ["select", [UA]], ["where", [["call", UA, "bitwiseand", [B]]]]]
    # a self-join written with two objects for OLD: the second occurrence carries the automatic alias <name>2
    t["self_join"] = [["from_", [["src", "T"]]], ["join", [["src", "TT"], ["enum", "JoinType", "cross"]], {}, ["cross", []]], ["select", [A, ["col", "TT", "b"]]]]
    t["self_join_from_twice"] = [["from_", [["src", "T"]]], ["from_", [["src", "TT"]]], ["select", [A, ["col", "TT", "b"]]], ["where", [["eq", A, ["col", "TT", "a"]]]]]
    t.update(XTEMPLATES)
    if cls == "postgresql":
        t["returning"] = [["update", [["src", "T"]]], ["set", [["py", "a"], ["raw", 1]]], ["returning", [A, ["py", "b"]]]]
        t["returning_insert"] = [["into", [["src", "T"]]], ["insert", [["raw", 1]]], ["returning", [["star", "T"]]]]
        t["distinct_on"] = [["from_", [["src", "T"]]], ["join", [["src", "U"], ["enum", "JoinType", "inner"]], {}, ["on", [["eq", UA, A]]]], ["select", [B]], ["distinct_on", [A]]]
    return t


# ---- third family: every Term subclass of the live package ---------------------------------------------------------------------


def class_cells():
    from pbt.props import c12

    for tcls in c12.term_classes():
        for cls_name in CTXS:
            yield tcls, cls_name


def check_class_cell(tcls, cls_name):
    """an instance of the class built on fields of table t (recipes of C12) -> ('skip', why) | ('ok', nrefs) | ('viol', kind, detail).
    Oracle: the result renders like the receiver with every qualifier t renamed, token by token; the independent walk finds no t; the receiver is unchanged."""
    import pypika_tortoise as P
    from pbt import lex
    from pbt.props import c12

    env = prog.Env(cls_name, c12.SRC)
    try:
        x = c12.instance(tcls, env)
    except Exception as e:
        return ("skip", "construct:" + type(e).__name__)
    if x is None or not hasattr(x, "replace_table"):
        return ("skip", "no-recipe" if x is None else "no-replace_table")
    old, new = P.Table("t"), P.Table("n9")
    ctx = prog.sql_context(cls_name).copy(with_namespace=True)
    try:
        before = x.get_sql(ctx)
    except Exception as e:
        return ("skip", "render:" + type(e).__name__)
    try:
        r = x.replace_table(old, new)
    except Exception as e:
        return ("viol", "raised:" + type(e).__name__, "%s.replace_table raised %r" % (tcls.__name__, e))
    if x.get_sql(ctx) != before:
        return ("viol", "receiver_changed", "%s: the receiver renders %r after the call, %r before" % (tcls.__name__, x.get_sql(ctx), before))
    if r is None:
        return ("viol", "returned_none", "%s.replace_table returned None" % tcls.__name__)
    try:
        after = r.get_sql(ctx)
    except Exception as e:
        return ("viol", "result_render_raises:" + type(e).__name__, "%r" % (e,))
    tb = lex.lex(before, cls_name)
    want = []
    nrefs = 0
    for i, t in enumerate(tb):
        if t.kind == "qid" and t.value == "t" and ((i + 1 < len(tb) and tb[i + 1].text == ".") or (i > 0 and tb[i - 1].kind == "word" and tb[i - 1].value in ("FROM", "JOIN", "INTO", "UPDATE"))):
            want.append(("qid", "n9"))
            nrefs += 1
        else:
            want.append(t.key)
    got = [t.key for t in lex.lex(after, cls_name)]
    if got != want:
        return ("viol", "differs", "%s under %s: %r became %r" % (tcls.__name__, cls_name, before, after))
    if find_tables(r, old):
        UNRENDERED.append(tcls.__name__)  # the rendering is right: a stale reference that nothing shows is not the property's business
    return ("ok", nrefs)


def stmt_sig(sig, detail, slot=None):
    return sig, detail


def check_case(case):
    m = case["mode"]
    if m == "class":
        from pbt.props import c12

        r = check_class_cell(c12.find_class(case["term"]), case["cls"])
        return [(mksig("class", c12.find_class(case["term"]).__name__, r[1]), r[2])] if r[0] == "viol" else []
    if m == "term":
        return minimal_term_sig(case["term"], case["old"], case["new"])
    p = case["program"]
    res = compare(p, case["old"], case["new"], False)
    return [(s, d) for s, d in res if s != "__build__"]


def valid_case(case):
    try:
        if case["mode"] == "class":
            from pbt.props import c12

            c12.find_class(case["term"])
            return case["cls"] in CTXS
        if case["mode"] == "term":
            o = prog.build_program({"root": "term", "term": case["term"], "sources": sources(case["old"])})
            o.get_sql(prog.sql_context("generic"))
        else:
            o = prog.build_program(dict(case["program"], sources=sources(case["old"])))
            if not o.get_sql(prog.sql_context(case["program"]["cls"])):
                return False
        return case["old"] in OLD_SPECS and case["new"] in NEW_SPECS
    except (Exception, HarnessError):
        return False


def count_old(node):
    return json.dumps(node).count('"T"')


def shards(tier, sd):
    out = [("templates", tier, c) for c in CTXS] + [("classes", tier, 0)]
    n = 3 if tier == "quick" else 16
    out += [("terms", tier, sd * 1000 + k) for k in range(n)]
    out += [("stmts", tier, sd * 1000 + 100 + k) for k in range(n)]
    return out


def run_shard(shard):
    del UNRENDERED[:]
    col = _run_shard(shard)
    if UNRENDERED:
        col.count("unrendered_reference_to_old_table", len(UNRENDERED))
        col.notes["unrendered_references"] = sorted(set(UNRENDERED))[:20]
    return col


def _run_shard(shard):
    kind, tier, arg = shard
    col = Collector()
    if kind == "templates":
        cls = arg
        for name, steps in templates(cls).items():
            for old_kind, new_kind in PAIRS:
                if name.startswith("self_join") and not (old_kind in ("plain", "schema") and new_kind in ("plain", "schema")):
                    continue  # the automatic alias is for un-aliased tables
                p = {"cls": cls, "sources": {}, "steps": steps, "kind": "slot:" + name}
                if name in XTEMPLATES:
                    p["extra_sources"] = XSRC
                case = {"mode": "stmt", "program": p, "old": old_kind, "new": new_kind}
                res = compare(p, old_kind, new_kind, False)
                if res and res[0][0] == "__build__":
                    col.count("build_raised:" + name)
                    col.evaluations += 1
                    continue
                col.case(case, True, classes=("slot:" + name, "pair:%s/%s" % (old_kind, new_kind)))
                for sig, detail in res:
                    col.violation(sig, case, detail)
        col.exhaustive = True
        return col
    if kind == "classes":
        from pbt.props import c12

        uncovered = set()
        for tcls, cls_name in class_cells():
            case = {"mode": "class", "term": c12.class_key(tcls), "cls": cls_name}
            r = check_class_cell(tcls, cls_name)
            if r[0] == "skip":
                col.count("class_skip:" + r[1])
                col.evaluations += 1
                if r[1] != "no-replace_table":
                    uncovered.add(c12.class_key(tcls))
                continue
            col.case(case, r[0] == "viol" or r[1] >= 1, classes=("class_matrix",))
            if r[0] == "viol":
                col.violation(mksig("class", tcls.__name__, r[1]), case, r[2])
        col.notes["class_matrix_uncovered"] = sorted(uncovered)
        col.exhaustive = True
        return col
    nex = 500 if tier == "quick" else 5000
    if kind == "terms":
        @seed(arg)
        @settings(max_examples=nex, database=None, deadline=None, suppress_health_check=list(HealthCheck), report_multiple_bugs=False)
        @given(expr_st(), st.sampled_from(PAIRS))
        def prop(node, pair):
            if not (isinstance(node, list) and node and node[0] not in ("vw", "raw")):
                return
            case = {"mode": "term", "term": node, "old": pair[0], "new": pair[1]}
            col.case(case, count_old(node) >= 1 and node[0] != "col", classes=("term_root:" + node[0],))
            for sig, detail in minimal_term_sig(node, pair[0], pair[1]):
                col.violation(sig, case, detail)

        prop()
        return col

    @seed(arg)
    @settings(max_examples=nex, database=None, deadline=None, suppress_health_check=list(HealthCheck), report_multiple_bugs=False)
    @given(gen.statement(), st.sampled_from(PAIRS))
    def prop2(p, pair):
        p = {k: v for k, v in p.items() if k not in ("markers", "sources")}
        case = {"mode": "stmt", "program": p, "old": pair[0], "new": pair[1]}
        res = compare(p, pair[0], pair[1], False)
        if res and res[0][0] == "__build__":
            col.count("build_raised")
            return
        col.case(case, count_old(p["steps"]) >= 2, classes=("stmt:" + p.get("kind", "?"), "cls:" + p["cls"]))
        for sig, detail in res:
            col.violation(sig, case, detail)

    prop2()
    return col
