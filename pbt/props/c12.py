"""C12 - Aliases are emitted exactly once, where they define a name, for every term kind.

Domain   matrix: every Term subclass discovered in the live package (constructed from a recipe table, or from its signature
         when the table does not know it) with a unique alias given through .as_() (and alias= where the constructor takes
         one) x positions: defining {select list, PostgreSQL RETURNING, DISTINCT ON, FROM / JOIN source for selectables} and
         operand {arithmetic, comparison, boolean, NOT, unary minus, IN term / element, BETWEEN slots, function argument,
         CASE when/then/else, tuple / array element, IS NULL, WHERE / HAVING / ON root, window PARTITION / ORDER} x six classes;
         second family: GROUP BY / ORDER BY items carrying an alias the select list defines / does not define.
Oracle   reference lexer: the statement with the alias equals the statement without it plus [AS] + one alias token inserted
         exactly at the end of the term (defining positions) or is identical to it (operand positions).
"""
from __future__ import annotations

import inspect

from pbt import lex, prog
from pbt.core import Collector, HarnessError, mksig
from pbt.props.c09 import split_tail

ID = "C12"
RULE = ("matrix of (Term subclass from the live package) x (position: 4 defining, 30 operand slots incl. INSERT VALUES / UPDATE SET / ORDER BY / GROUP BY expressions, 14 operand slots inside select-list items, FROM / JOIN / IN container for selectables) x (six dialect classes) x (get_sql(ctx) / parameterised / str() / as_keyword context); one aliased term object used in the select list and again in WHERE / HAVING / ON / ORDER BY / GROUP BY / a second select item; plus GROUP BY / ORDER BY by defined and "
        "undefined alias. Every cell is one case; a cell is non-trivial when the class can be built and can legally stand in the position; distinct = distinct cell. "
        "The matrix is enumerated completely in both tiers. Plus: for every live class whose constructor takes alias=, the constructor argument must render exactly what as_() renders.")
ASSUMPTIONS = [
    "Star, Index and Rollup carry no alias by nature; Interval is not a Term",
    "MSSQL and Oracle must not reference select aliases in GROUP BY (the alias-free expression is expected there)",
    "PostgreSQL RETURNING rejects Function terms with a QueryException by contract",
]

ALIAS = "zq7"
CTXS = prog.CLS_NAMES
C = ["col", "T", "c"]
D = ["col", "T", "d"]
SRC = {"T": ["tbl", "t", None, None], "U": ["tbl", "u", None, None]}

RECIPES = {
    "Field": C, "ValueWrapper": ["vw", ["raw", 7]], "MySQLValueWrapper": ["vw", ["raw", 7], None, "mysql"], "SQLLiteValueWrapper": ["vw", ["raw", 7], None, "sqlite"],
    "Parameter": ["param", "?"], "Negative": ["neg", C], "JSON": ["json", {"k": 1}], "Values": ["values", C], "LiteralValue": ["lit", "LIT"], "NullValue": ["null"],
    "SystemTimeValue": ["systime"], "Tuple": ["tuple", [C, ["raw", 1]]], "Array": ["array", [C, ["raw", 1]]], "Bracket": ["bracket", C],
    "NestedCriterion": ["nested", C, D, C], "BasicCriterion": ["eq", C, ["raw", 1]], "ComplexCriterion": ["and", ["eq", C, ["raw", 1]], ["eq", D, ["raw", 2]]],
    "ContainsCriterion": ["in", C, [["raw", 1], ["raw", 2]]], "BetweenCriterion": ["between", C, ["raw", 1], ["raw", 2]], "PeriodCriterion": ["from_to", C, ["raw", 1], ["raw", 2]],
    "BitwiseAndCriterion": ["bitand", C, 5], "NullCriterion": ["isnull", C], "Not": ["not", ["eq", C, ["raw", 1]], "cls"], "All": ["all", C],
    "ArithmeticExpression": ["add", C, ["raw", 1]], "Case": ["case", [[["eq", C, ["raw", 1]], ["raw", 2]]], ["raw", 3]], "Function": ["cfn", "FN", [C]],
    "AggregateFunction": ["aggfn", "AGG", [C]], "AnalyticFunction": ["call", ["an", "Rank", []], "over", [C]], "Pow": ["pow", C, ["raw", 2]], "Mod": ["mod", C, ["raw", 2]],
    "PseudoColumn": ["pseudo", "ROWNUM"], "AtTimezone": ["attz", C, "UTC"], "Extract": ["extract", ["enum", "DatePart", "year"], C], "Cast": ["cast", C, "INT"],
    "QueryBuilder": ["subq", {"cls": "inherit", "sources": {}, "steps": [["from_", [["src", "U"]]], ["select", [["col", "U", "c"]]]]}],
    "_SetOperation": ["subq", {"cls": "inherit", "sources": {}, "steps": [["from_", [["src", "U"]]], ["select", [["col", "U", "c"]]], ["union", [["q", {"cls": "inherit", "sources": {}, "steps": [["from_", [["src", "U"]]], ["select", [["col", "U", "d"]]]]}]]]]}],
}
NO_ALIAS = {"Star", "Index", "Rollup", "Term", "Criterion", "RangeCriterion", "Probe"}
# legality: a period criterion (x FROM a TO b) only exists inside FOR PORTION OF; it is not a select / GROUP BY item
NOT_SELECTABLE_TERMS = {"PeriodCriterion"}
SELECTABLES = {"QueryBuilder", "_SetOperation", "MySQLQueryBuilder", "PostgreSQLQueryBuilder", "SQLLiteQueryBuilder", "MSSQLQueryBuilder", "OracleQueryBuilder"}


def term_classes():
    from pypika_tortoise.terms import Term
    import pypika_tortoise.analytics, pypika_tortoise.functions, pypika_tortoise.dialects  # noqa

    seen, out, stack = set(), [], [Term]
    while stack:
        c = stack.pop()
        for s in c.__subclasses__():
            if s not in seen and s.__module__.startswith("pypika_tortoise"):
                seen.add(s)
                stack.append(s)
                out.append(s)
    return sorted(out, key=lambda c: (c.__module__, c.__name__))


def class_key(cls):
    mod = cls.__module__.split(".")[-1]
    return cls.__name__ if mod in ("terms", "queries") or cls.__name__ in RECIPES else "%s.%s" % (mod, cls.__name__)


class _Enc:
    value = "utf8"


def accepts_alias_kw(cls):
    try:
        prms = inspect.signature(cls.__init__).parameters
    except (TypeError, ValueError):
        return False
    return "alias" in prms or any(p.kind == p.VAR_KEYWORD for p in prms.values())


def build_by_signature(cls, **kw):
    """construct an instance of a Term subclass the recipe table does not know, from its signature"""
    import pypika_tortoise as P
    from pypika_tortoise import enums

    sig = inspect.signature(cls.__init__)
    args = []
    for name, prm in list(sig.parameters.items())[1:]:
        if prm.kind in (prm.VAR_POSITIONAL, prm.VAR_KEYWORD):
            if prm.kind == prm.VAR_POSITIONAL and name in ("terms", "args", "default_values"):
                if name != "default_values":
                    args.append(P.Field("c", table=P.Table("t")))
            continue
        if prm.default is not inspect.Parameter.empty:
            continue
        if name in ("date_part",):
            args.append(P.DatePart.year)
        elif name in ("as_type",):
            args.append("INT")
        elif name in ("encoding",):
            args.append(_Enc)
        elif name in ("percentile",):
            args.append(0.5)
        elif name in ("name",):
            args.append("FN")
        elif name in ("interval",):
            args.append("day")
        elif name == "comparator":
            args.append(enums.Boolean.and_ if cls.__name__ == "ComplexCriterion" else enums.Equality.eq)
        elif name == "operator":
            args.append(enums.Arithmetic.add)
        elif name == "container":
            args.append(P.Tuple(1, 2))
        elif name == "value":
            args.append(3)
        elif name == "zone":
            args.append("UTC")
        else:
            args.append(P.Field("c", table=P.Table("t")))
    return cls(*args, **kw)


def instance(cls, env):
    key = cls.__name__
    if key in RECIPES and (cls.__module__.endswith("terms") or cls.__module__.endswith("queries") or key in ("Extract", "Cast", "MySQLValueWrapper", "SQLLiteValueWrapper")):
        return prog.build_arg(RECIPES[key], env)
    if key in SELECTABLES:
        name = {"MySQLQueryBuilder": "mysql", "PostgreSQLQueryBuilder": "postgresql", "SQLLiteQueryBuilder": "sqlite", "MSSQLQueryBuilder": "mssql", "OracleQueryBuilder": "oracle"}.get(key)
        if name is None:
            return None
        return prog.query_cls(name).from_("u").select("c")
    return build_by_signature(cls)


# ---- positions --------------------------------------------------------------------------------------------------------
# each position: (name, kind, builder(cls_name, X) -> statement object) ; X is the (possibly aliased) live term

OPERAND_SLOTS = ["arith_left", "arith_right", "cmp_left", "cmp_right", "bool_right", "not", "neg", "in_term", "in_elem", "between_term", "between_lo",
                 "fn_arg", "case_when", "case_then", "case_else", "tuple_elem", "array_elem", "isnull", "where_root", "having_root", "on_root",
                 "win_partition", "win_order", "select_arith", "select_fn_arg", "insert_value", "insert_row_last", "update_set_value", "orderby_expr", "groupby_expr", "conflict_target", "values_fn_arg", "attz_field", "extract_field", "cast_arg", "bool_left", "bool_or_left", "period_term", "period_bound", "like_pattern", "json_operand", "update_orderby", "all_operand",
                 "bitand_term", "bitand_value", "like_term", "notnull", "between_hi", "regex_term", "json_left", "in_list_term", "notin_term", "for_criterion", "for_portion_criterion"]
DEFINING = ["select", "select_last", "returning", "distinct_on"]
# the same operand slots with the enclosing expression as a select-list item (the one clause rendered with with_alias=True), and with it as
# an aliased select-list item: the operand's alias must not appear, the item's own alias exactly once
WHERE_WRAPPED = ["arith_left", "arith_right", "cmp_left", "cmp_right", "bool_right", "not", "neg", "in_term", "in_elem", "between_term", "between_lo",
                 "fn_arg", "tuple_elem", "isnull", "in_container"]
SEL_SLOTS = ["sel:" + x for x in WHERE_WRAPPED]
MODES = ["ctx", "par", "str", "askw"]  # askw: the class context with as_keyword=True (aliases written AS "x")


def statement(cls_name, pos, X, as_selectable=False):
    import pypika_tortoise as P
    from pypika_tortoise import analytics as an, functions as fn

    Q = prog.query_cls(cls_name)
    t, u = P.Table("t"), P.Table("u")
    c, d = t.c, t.d
    base = Q.from_(t)
    if pos == "select":
        return base.select(X)
    if pos == "select_last":
        return base.select(d, X)
    if pos == "returning":
        if cls_name != "postgresql":
            return None
        return Q.into(t).insert(1).returning(X)
    if pos == "distinct_on":
        if cls_name != "postgresql":
            return None
        return base.select(d).distinct_on(X)
    if pos == "from":
        return Q.from_(X).select("*")
    if pos == "join":
        return base.join(X).on(c == 1).select(d)
    in_select = pos.startswith("sel:")
    if in_select:
        pos = pos[4:]
    w = None
    if pos == "in_container":
        w = d.isin(X)
    elif pos == "arith_left":
        w = X + d
    elif pos == "arith_right":
        w = d + X
    elif pos == "cmp_left":
        w = X.gt(d)
    elif pos == "cmp_right":
        w = d > X
    elif pos == "bool_right":
        w = (d == 1) & X
    elif pos == "not":
        w = P.Not(X)
    elif pos == "neg":
        w = -X
    elif pos == "in_term":
        w = X.isin([1, 2])
    elif pos == "in_elem":
        w = d.isin([X, 2])
    elif pos == "between_term":
        w = X.between(1, 2)
    elif pos == "between_lo":
        w = d.between(X, 9)
    elif pos == "fn_arg":
        w = fn.Coalesce(X, 0) == 1
    elif pos == "case_when":
        return base.select(P.Case().when(X, 1).else_(2))
    elif pos == "case_then":
        return base.select(P.Case().when(d == 1, X).else_(2))
    elif pos == "case_else":
        return base.select(P.Case().when(d == 1, 2).else_(X))
    elif pos == "tuple_elem":
        w = P.Tuple(X, 2).isin([P.Tuple(1, 2)])
    elif pos == "array_elem":
        return base.select(P.Array(1, X))
    elif pos == "isnull":
        w = X.isnull()
    elif pos == "where_root":
        w = X
    elif pos == "having_root":
        return base.select(d).groupby(d).having(X)
    elif pos == "on_root":
        return base.join(u).on(X).select(d)
    elif pos == "win_partition":
        return base.select(an.Rank().over(X))
    elif pos == "win_order":
        return base.select(an.Rank().orderby(X))
    elif pos == "select_arith":
        return base.select(X + 1)
    elif pos == "select_fn_arg":
        return base.select(fn.Coalesce(X, 0))
    elif pos == "insert_value":
        return Q.into(t).columns("c").insert(X)
    elif pos == "insert_row_last":
        return Q.into(t).columns("c", "d").insert((1, 2), (3, X))
    elif pos == "values_fn_arg":
        from pypika_tortoise.terms import Values

        if not isinstance(X, P.Field):
            raise TypeError("Values takes a field")
        return base.select(Values(X))
    elif pos == "attz_field":
        from pypika_tortoise.terms import AtTimezone

        if not isinstance(X, P.Field):
            raise TypeError("AtTimezone takes a field")
        return base.select(AtTimezone(X, "UTC"))
    elif pos == "extract_field":
        from pypika_tortoise.enums import DatePart

        return base.select(fn.Extract(DatePart.year, X))
    elif pos == "cast_arg":
        return base.select(fn.Cast(X, "INT"))
    elif pos == "update_orderby":
        return Q.update(t).set(d, 1).where(c == 1).orderby(X).limit(3)  # rendered by MySQL (and SQLite / PostgreSQL builders), ignored by the others
    elif pos == "all_operand":
        from pypika_tortoise.terms import All

        w = d > All(X)
    elif pos in ("for_criterion", "for_portion_criterion") and not isinstance(X, P.terms.Criterion):
        return None  # for_() / for_portion() take criteria
    elif pos == "for_criterion":
        return Q.from_(t.for_(X)).select(d)  # FROM "t" FOR <criterion>: an operand of the temporal clause, no name is defined there
    elif pos == "for_portion_criterion":
        return Q.update(t.for_portion(X)).set(d, 1)
    elif pos == "bitand_term":
        w = X.bitwiseand(3) == 1
    elif pos == "bitand_value":
        w = d.bitwiseand(X) == 1  # the right operand of the bit test
    elif pos == "like_term":
        w = X.like("a%")
    elif pos == "notnull":
        w = X.notnull()
    elif pos == "between_hi":
        w = d.between(1, X)
    elif pos == "regex_term":
        w = X.regex("^a")
    elif pos == "json_left":
        w = X.has_key("k")  # noqa: W601
    elif pos == "in_list_term":
        w = X.isin([1, 2])
    elif pos == "notin_term":
        w = X.notin([1, 2])
    elif pos == "bool_left":
        w = X & (d == 1)
    elif pos == "bool_or_left":
        w = (X | (d == 1)) & (c == 2)
    elif pos == "period_term":
        return Q.update(t.for_portion(X.from_to(1, 2))).set(d, 1)
    elif pos == "period_bound":
        return Q.update(t.for_portion(P.Field("valid").from_to(X, 9))).set(d, 1)
    elif pos == "like_pattern":
        w = d.like(X)
    elif pos == "json_operand":
        w = d.get_json_value(X) if False else d.has_key(X)  # noqa: W601 - the JSON operator's right operand
    elif pos == "conflict_target":
        return Q.into(t).columns("c").insert(1).on_conflict(X).do_nothing()
    elif pos == "update_set_value":
        return Q.update(t).set(d, X).where(c == 1)
    elif pos == "orderby_expr":
        return base.select(d).orderby(X + 1)
    elif pos == "groupby_expr":
        return base.select(fn.Count("*")).groupby(fn.Coalesce(X, 0))
    else:
        raise HarnessError(pos)
    if in_select:
        return base.select(d, w)
    return base.select(d).where(w)


def render(q, cls_name, mode="ctx"):
    if mode == "par":
        from pypika_tortoise import Parameterizer

        return q.get_sql(prog.sql_context(cls_name).copy(parameterizer=Parameterizer()))
    if mode == "str":
        return str(q)
    if mode == "askw":
        return q.get_sql(prog.sql_context(cls_name).copy(as_keyword=True))
    return q.get_sql(prog.sql_context(cls_name))


def alias_count(tokens):
    return sum(1 for t in tokens if (t.kind == "qid" and t.value == ALIAS) or (t.kind == "word" and t.value == ALIAS.upper()))


def depth0_index(tokens, word, start=0):
    depth = 0
    for i in range(start, len(tokens)):
        t = tokens[i]
        if t.kind == "punct" and t.text in "([":
            depth += 1
        elif t.kind == "punct" and t.text in ")]":
            depth -= 1
        elif depth == 0 and t.kind == "word" and t.value == word:
            return i
    return len(tokens)


def select_list_end(tokens):
    """index of the statement's own FROM: the first FROM outside brackets that is not the tail of IS [NOT] DISTINCT FROM"""
    i = 0
    while True:
        i = depth0_index(tokens, "FROM", i)
        if i >= len(tokens) or i == 0 or not (tokens[i - 1].kind == "word" and tokens[i - 1].value == "DISTINCT"):
            return i
        i += 1


def check_cell(tcls, cls_name, pos, via, mode="ctx"):
    """-> ('skip', reason) | ('ok', None) | ('viol', kind, detail)"""
    env = prog.Env(cls_name, SRC)
    try:
        x0 = instance(tcls, env)
        x1 = instance(tcls, env)
    except Exception as e:
        return ("skip", "construct:" + type(e).__name__)
    if x0 is None:
        return ("skip", "no-recipe")
    if tcls.__name__ in NOT_SELECTABLE_TERMS and pos in DEFINING:
        return ("skip", "illegal-position")
    try:
        if via == "as_":
            x1 = x1.as_(ALIAS)
        else:
            if "alias" not in inspect.signature(tcls.__init__).parameters and not any(p.kind == p.VAR_KEYWORD for p in inspect.signature(tcls.__init__).parameters.values()):
                return ("skip", "no-alias-kw")
            x1.alias = None
            return ("skip", "alias-kw-covered-by-as_")
    except Exception as e:
        return ("skip", "alias:" + type(e).__name__)
    try:
        q0 = statement(cls_name, pos, x0)
        q1 = statement(cls_name, pos, x1)
    except Exception as e:
        return ("skip", "illegal:" + type(e).__name__)
    if q0 is None:
        return ("skip", "n/a")
    try:
        s0, s1 = render(q0, cls_name, mode), render(q1, cls_name, mode)
    except (NameError, AttributeError, KeyError, IndexError) as e:
        if tcls.__name__ in SELECTABLES:
            return ("skip", "render:" + type(e).__name__)  # e.g. query + field builds a UNION with a field (documented operator overloading)
        # a term that cannot be rendered at all emits no alias either; these exception types are programming errors, never the library's way of rejecting
        return ("viol", "render_raises:" + type(e).__name__, "%s in %s: rendering raised %r" % (tcls.__name__, pos, e))
    except Exception as e:
        return ("skip", "render:" + type(e).__name__)
    t0, t1 = lex.lex(s0, cls_name), lex.lex(s1, cls_name)
    n = alias_count(t1)
    if pos in ("from", "join") and any(t.kind == "qid" and t.value.startswith("sq") and t.value[2:].isdigit() for t in t0):
        # an un-aliased subquery gets the automatic alias sqN at this position: the explicit alias must simply take its place
        k0 = [("qid", ALIAS) if (t.kind == "qid" and t.value.startswith("sq") and t.value[2:].isdigit()) else t.key for t in t0]
        if n == 0:
            return ("viol", "dropped", "%s in %s: %r" % (tcls.__name__, pos, s1))
        if [t.key for t in t1] != k0:
            return ("viol", "misplaced", "%r vs %r" % (s1, s0))
        return ("ok", None)
    if pos in OPERAND_SLOTS or pos in SEL_SLOTS or pos == "in_container":
        if n:
            return ("viol", "leaked", "%s as %s operand: %r" % (tcls.__name__, pos, s1))
        if [t.key for t in t0] != [t.key for t in t1]:
            return ("viol", "changed", "%r vs %r" % (s1, s0))
        return ("ok", None)
    # defining positions
    if n == 0:
        return ("viol", "dropped", "%s in %s: %r" % (tcls.__name__, pos, s1))
    if n > 1:
        return ("viol", "duplicated", "%s in %s: %r" % (tcls.__name__, pos, s1))
    sp = split_tail(t0, t1)
    if sp is None:
        return ("viol", "misplaced", "%r is not %r plus an alias" % (s1, s0))
    p, tail = sp
    keys = [t.key for t in tail]
    if keys not in ([("qid", ALIAS)], [("word", "AS"), ("qid", ALIAS)]):
        return ("viol", "misplaced", "inserted tokens %r in %r" % ([t.text for t in tail], s1))
    qc = prog.sql_context(cls_name).alias_quote_char or prog.sql_context(cls_name).quote_char
    if qc not in tail[-1].flags:
        return ("viol", "wrong_quote", "%r" % s1)
    # the insertion point must be the end of the term
    if pos in ("select", "select_last"):
        want = select_list_end(t0)
    elif pos == "returning":
        want = len(t0)
    elif pos == "distinct_on":
        # closing bracket of DISTINCT ON( ... )
        i = depth0_index(t0, "ON") + 1
        depth = 0
        want = None
        for j in range(i, len(t0)):
            if t0[j].kind == "punct" and t0[j].text == "(":
                depth += 1
            elif t0[j].kind == "punct" and t0[j].text == ")":
                depth -= 1
                if depth == 0:
                    want = j
                    break
    elif pos == "from":
        want = len(t0)
    elif pos == "join":
        want = depth0_index(t0, "ON")
    else:
        want = None
    if want is not None and p != want:
        return ("viol", "misplaced", "alias inserted at token %d, the term ends at %d: %r" % (p, want, s1))
    return ("ok", None)


# ---- second family: GROUP BY / ORDER BY by alias ----------------------------------------------------------------------


def clause_tokens(tokens, start_words, stop_words):
    i = 0
    depth = 0
    seg_start = None
    for i, t in enumerate(tokens):
        if t.kind == "punct" and t.text in "([":
            depth += 1
        elif t.kind == "punct" and t.text in ")]":
            depth -= 1
        elif depth == 0 and t.kind == "word":
            if seg_start is None and t.value == start_words[0] and i + 1 < len(tokens) and tokens[i + 1].value == start_words[1]:
                seg_start = i + 2
            elif seg_start is not None and i >= seg_start and t.value in stop_words:
                return tokens[seg_start:i]
    return tokens[seg_start:] if seg_start is not None else None


def check_groupby(tcls, cls_name, clause, defined):
    import pypika_tortoise as P

    env = prog.Env(cls_name, SRC)
    if tcls.__name__ in NOT_SELECTABLE_TERMS:
        return ("skip", "illegal-position")
    try:
        xa = instance(tcls, env)
        xb = instance(tcls, env)
        xc = instance(tcls, env)
        if xa is None:
            return ("skip", "no-recipe")
        xa, xb = xa.as_(ALIAS), xb.as_(ALIAS)
    except Exception as e:
        return ("skip", "construct:" + type(e).__name__)
    Q = prog.query_cls(cls_name)
    t = P.Table("t")

    def build(item, sel):
        q = Q.from_(t).select(*sel)
        return q.groupby(item) if clause == "groupby" else q.orderby(item)

    try:
        sel = [xa, t.d] if defined else [t.d]
        q1 = build(xb, sel)
        q0 = build(xc, sel)
        s1, s0 = render(q1, cls_name), render(q0, cls_name)
    except Exception as e:
        return ("skip", "illegal:" + type(e).__name__)
    t1, t0 = lex.lex(s1, cls_name), lex.lex(s0, cls_name)
    words = ("GROUP", "BY") if clause == "groupby" else ("ORDER", "BY")
    stops = ("ORDER", "HAVING", "LIMIT", "OFFSET", "FETCH", "FOR")
    seg1, seg0 = clause_tokens(t1, words, stops), clause_tokens(t0, words, stops)
    if seg1 is None or seg0 is None:
        return ("skip", "no-clause")
    k1 = [x.key for x in seg1]
    by_alias = k1 == [("qid", ALIAS)]
    if by_alias:
        if clause == "groupby" and cls_name in ("mssql", "oracle"):
            return ("viol", "alias_reference_forbidden", "%s: %r" % (cls_name, s1))
        # the select list must define the alias
        sel_end = select_list_end(t1)
        defined_in_select = any(t1[i].kind == "qid" and t1[i].value == ALIAS and (i + 1 == sel_end or (t1[i + 1].kind == "punct" and t1[i + 1].text == ",")) for i in range(1, sel_end))
        if not defined_in_select:
            return ("viol", "undefined_reference", "%s %s refers to an alias the select list does not define: %r" % (tcls.__name__, clause, s1))
        return ("ok", None)
    if k1 != [x.key for x in seg0]:
        kind = "leaked" if alias_count(seg1) else "changed"
        return ("viol", kind, "%s item of %s is neither the alias nor the alias-free expression: %r (alias-free form: %r)" % (clause, tcls.__name__, s1, s0))
    return ("ok", None)


VALUES_POSITIONS = ("insert_value", "insert_row_last")
TARGET_POSITIONS = ("conflict_target",)


# ---- third family: ONE aliased term object used in the select list and again in another clause of the same statement ------------------

REUSE_CLAUSES = ["where_operand", "having_operand", "join_on_operand", "orderby_item", "groupby_item", "second_select_operand"]


def check_reuse(tcls, cls_name, clause, mode="ctx"):
    """-> ('skip', why) | ('ok', None) | ('viol', kind, detail).  The alias is written once where it is defined (the select list);
    GROUP BY / ORDER BY may refer to the item by its alias (one more occurrence, then as the whole item); nowhere else."""
    import pypika_tortoise as P
    from pypika_tortoise import functions as fn

    env = prog.Env(cls_name, SRC)
    if tcls.__name__ in NOT_SELECTABLE_TERMS:
        return ("skip", "illegal-position")
    try:
        x = instance(tcls, env)
        if x is None:
            return ("skip", "no-recipe")
        x = x.as_(ALIAS)
    except Exception as e:
        return ("skip", "construct:" + type(e).__name__)
    Q = prog.query_cls(cls_name)
    t, u = P.Table("t"), P.Table("u")
    try:
        q = Q.from_(t).select(x, t.d)
        if clause == "where_operand":
            q = q.where(fn.Coalesce(x, 0) == 1)
        elif clause == "having_operand":
            q = q.groupby(t.d).having(fn.Coalesce(x, 0) == 1)
        elif clause == "join_on_operand":
            q = Q.from_(t).join(u).on(fn.Coalesce(x, 0) == u.c).select(x, t.d)
        elif clause == "orderby_item":
            q = q.orderby(x)
        elif clause == "groupby_item":
            q = q.groupby(x)
        elif clause == "second_select_operand":
            q = Q.from_(t).select(x, fn.Coalesce(x, 0))
        sql = render(q, cls_name, mode)
    except Exception as e:
        return ("skip", "illegal:" + type(e).__name__)
    toks = lex.lex(sql, cls_name)
    n = alias_count(toks)
    allowed = 1
    if clause in ("orderby_item", "groupby_item"):
        words = ("GROUP", "BY") if clause == "groupby_item" else ("ORDER", "BY")
        segt = clause_tokens(toks, words, ("ORDER", "HAVING", "LIMIT", "OFFSET", "FETCH", "FOR"))
        if segt is not None and [z.key for z in segt] == [("qid", ALIAS)]:
            allowed = 2  # a reference to the select item by its alias
    if n == 0:
        return ("viol", "dropped", "%s: the alias is missing altogether in %r" % (tcls.__name__, sql))
    if n > allowed:
        return ("viol", "leaked", "%s reused at %s: the alias occurs %d times in %r" % (tcls.__name__, clause, n, sql))
    return ("ok", None)


def check_alias_kw(tcls, cls_name, mode="ctx"):
    """the alias= constructor argument is the other way to name a term: it must give exactly what .as_() gives"""
    if not accepts_alias_kw(tcls):
        return ("skip", "no-alias-kw")
    try:
        xa = build_by_signature(tcls).as_(ALIAS)
        s_as = render(statement(cls_name, "select_last", xa), cls_name, mode)
    except Exception as e:
        return ("skip", "construct:" + type(e).__name__)
    if alias_count(lex.lex(s_as if isinstance(s_as, str) else s_as[0], cls_name)) != 1:
        return ("skip", "as_-form-without-alias")  # the cell matrix reports that one
    try:
        xk = build_by_signature(tcls, alias=ALIAS)
        s_kw = render(statement(cls_name, "select_last", xk), cls_name, mode)
    except Exception as e:
        return ("viol", "alias_kw_raises:" + type(e).__name__, "%s(.., alias=..): %r" % (tcls.__name__, e))
    if s_kw != s_as:
        n = alias_count(lex.lex(s_kw if isinstance(s_kw, str) else s_kw[0], cls_name))
        return ("viol", "alias_kw_dropped" if n == 0 else "alias_kw_differs", "%s(.., alias=%r) gives %r, .as_(%r) gives %r" % (tcls.__name__, ALIAS, s_kw, ALIAS, s_as))
    return ("ok", None)


def check_cte_reference_alias(cls_name, where, mode="ctx"):
    """a reference to a CTE (AliasedQuery) given its own alias with as_(): FROM / JOIN define that alias exactly once, right after the CTE's name"""
    import pypika_tortoise as P

    Q = prog.query_cls(cls_name)
    t = P.Table("t")
    c = P.AliasedQuery("c")
    p_ = P.AliasedQuery("c").as_(ALIAS)
    body = Q.from_(t).select(t.id, t.parent)
    try:
        if where == "join":
            q = Q.with_(body, "c").from_(c).join(p_).on(c.parent == p_.id).select(c.id, p_.id)
        else:
            q = Q.with_(body, "c").from_(p_).select(p_.id)
        sql = render(q, cls_name, mode)
    except Exception as e:
        return [(mksig("AliasedQuery", where, "raises:" + type(e).__name__), repr(e))]
    text = sql if isinstance(sql, str) else sql[0]
    toks = lex.lex(text, cls_name)
    defs = [i for i, tk in enumerate(toks) if tk.kind == "qid" and tk.value == ALIAS and not (i + 1 < len(toks) and toks[i + 1].text == ".")]
    uses = [i for i, tk in enumerate(toks) if tk.kind == "qid" and tk.value == ALIAS and i + 1 < len(toks) and toks[i + 1].text == "."]
    if uses and len(defs) != 1:
        return [(mksig("AliasedQuery", where, "dropped" if not defs else "duplicated"), "the alias of a CTE reference qualifies %d columns but is defined %d times: %r" % (len(uses), len(defs), text))]
    name_at = lambda k: toks[k].text.strip('"`') == "c"  # noqa: E731 - the CTE's name, written bare (known C07 finding) or quoted
    if defs and not (name_at(defs[0] - 1) or (toks[defs[0] - 1].kind == "word" and toks[defs[0] - 1].value == "AS" and name_at(defs[0] - 2))):
        return [(mksig("AliasedQuery", where, "misplaced"), "the alias does not follow the CTE's name: %r" % text)]
    return []


def check_customfn_alias(cls_name, mode="ctx"):
    import pypika_tortoise as P

    f = P.CustomFunction("fnc", ["x", "y"])
    c = P.Field("c", table=P.Table("t"))
    try:
        s_as = render(statement(cls_name, "select_last", f(c, 2).as_(ALIAS)), cls_name, mode)
        s_kw = render(statement(cls_name, "select_last", f(c, 2, alias=ALIAS)), cls_name, mode)
    except Exception as e:
        return [(mksig("CustomFunction", "alias_kw", "raises:" + type(e).__name__), repr(e))]
    if s_as != s_kw:
        return [(mksig("CustomFunction", "alias_kw", "alias_kw_differs"), "CustomFunction call with alias=%r gives %r, .as_() gives %r" % (ALIAS, s_kw, s_as))]
    return []


def sig_of(tcls, pos, kind, cls_name="generic"):
    if pos == "alias_kw":
        return mksig(class_key(tcls), "alias_kw", kind)  # every constructor passes its alias on by itself
    grp = pos if pos in DEFINING + ["from", "join", "groupby", "orderby"] else "operand"
    if kind == "leaked" and pos in TARGET_POSITIONS:
        r = check_cell(tcls, cls_name, "cmp_left", "as_")
        if not (r[0] == "viol" and r[1] == "leaked"):
            return mksig("conflict_target", "leaked")
    if kind == "leaked" and pos in ("for_criterion", "for_portion_criterion"):
        r = check_cell(tcls, cls_name, "cmp_left", "as_")
        if not (r[0] == "viol" and r[1] == "leaked"):
            return mksig("temporal_clause", "leaked")
    if kind == "leaked" and pos in VALUES_POSITIONS:
        # one root cause for every term class: the VALUES clause asks its terms for their alias - unless the class prints it everywhere anyway
        r = check_cell(tcls, cls_name, "cmp_left", "as_")
        if not (r[0] == "viol" and r[1] == "leaked"):
            return mksig("values_clause", "leaked")
    if kind == "leaked":
        # one root cause per class: its get_sql appends the alias whatever the context says
        return mksig(c01_defining(tcls), "leaked")
    return mksig(c01_defining(tcls), grp, kind)


def c01_defining(tcls):
    for c in tcls.__mro__:
        if "get_sql" in vars(c):
            return c.__name__
    return tcls.__name__


def all_cells():
    for tcls in term_classes():
        if tcls.__name__ in NO_ALIAS:
            continue
        for cls_name in CTXS:
            sel = tcls.__name__ in SELECTABLES
            positions = DEFINING + OPERAND_SLOTS + SEL_SLOTS[:-1] + (["from", "join", "in_container", "sel:in_container"] if sel else [])
            for pos in positions:
                for mode in MODES:
                    if mode == "str" and cls_name != "generic" and not sel:
                        continue  # str() renders with the builder's own class context: one pass per class is the ctx pass
                    yield tcls, cls_name, pos, mode


def find_class(name):
    for c in term_classes():
        if class_key(c) == name or c.__name__ == name:
            return c
    raise HarnessError("unknown term class %r" % name)


def check_case(case):
    if case.get("family") == "customfn_alias":
        return check_customfn_alias(case["cls"], case.get("mode", "ctx"))
    if case.get("family") == "cte_ref_alias":
        return check_cte_reference_alias(case["cls"], case["where"], case.get("mode", "ctx"))
    tcls = find_class(case["term"])
    if case.get("family") == "reuse":
        r = check_reuse(tcls, case["cls"], case["clause"], case.get("mode", "ctx"))
        return [(sig_of(tcls, "reuse", r[1], case["cls"]), r[2])] if r[0] == "viol" else []
    if case.get("family") == "alias_kw":
        r = check_alias_kw(tcls, case["cls"], case.get("mode", "ctx"))
        return [(sig_of(tcls, "alias_kw", r[1], case["cls"]), r[2])] if r[0] == "viol" else []
    if case.get("family") == "gb":
        r = check_groupby(tcls, case["cls"], case["clause"], case["defined"])
        pos = case["clause"]
    else:
        r = check_cell(tcls, case["cls"], case["pos"], "as_", case.get("mode", "ctx"))
        pos = case["pos"]
    if r[0] == "viol":
        return [(sig_of(tcls, pos, r[1], case["cls"]), r[2])]
    return []


def valid_case(case):
    try:
        if case.get("family") in ("customfn_alias", "cte_ref_alias"):
            return case["cls"] in CTXS
        find_class(case["term"])
        return case["cls"] in CTXS
    except (Exception, HarnessError):
        return False


def shards(tier, sd):
    return [(tier, c) for c in CTXS]


def run_shard(shard):
    tier, cls_name = shard
    col = Collector()
    uncovered = set()
    for tcls, cn, pos, mode in all_cells():
        if cn != cls_name:
            continue
        case = {"term": class_key(tcls), "cls": cn, "pos": pos, "mode": mode}
        r = check_cell(tcls, cn, pos, "as_", mode)
        if r[0] == "skip":
            col.count("skip:" + r[1])
            if r[1].startswith("construct") or r[1] == "no-recipe":
                uncovered.add(class_key(tcls))
            col.evaluations += 1
            continue
        col.case(case, True, classes=("pos:" + pos, "mode:" + mode), sample=dict(case, sql=_sample_sql(tcls, cn, pos)) if len(col.samples) < 4 else None)
        if r[0] == "viol":
            col.violation(sig_of(tcls, pos, r[1], cn), case, r[2])
    for tcls in term_classes():
        if tcls.__name__ in NO_ALIAS:
            continue
        for clause in ("groupby", "orderby"):
            for defined in (True, False):
                case = {"family": "gb", "term": class_key(tcls), "cls": cls_name, "clause": clause, "defined": defined}
                r = check_groupby(tcls, cls_name, clause, defined)
                if r[0] == "skip":
                    col.count("skip:" + r[1])
                    col.evaluations += 1
                    continue
                col.case(case, True, classes=("gb:%s:%s" % (clause, "defined" if defined else "undefined"),))
                if r[0] == "viol":
                    col.violation(sig_of(tcls, clause, r[1]), case, r[2])
    for tcls in term_classes():
        if tcls.__name__ in NO_ALIAS:
            continue
        for clause in REUSE_CLAUSES:
            for mode in ("ctx", "par"):
                case = {"family": "reuse", "term": class_key(tcls), "cls": cls_name, "clause": clause, "mode": mode}
                r = check_reuse(tcls, cls_name, clause, mode)
                if r[0] == "skip":
                    col.count("skip:" + r[1])
                    col.evaluations += 1
                    continue
                col.case(case, True, classes=("reuse:" + clause,))
                if r[0] == "viol":
                    col.violation(sig_of(tcls, "reuse", r[1], cls_name), case, r[2])
    for tcls in term_classes():
        for mode in ("ctx", "par"):
            case = {"family": "alias_kw", "term": class_key(tcls), "cls": cls_name, "mode": mode}
            r = check_alias_kw(tcls, cls_name, mode)
            if r[0] == "skip":
                col.count("skip:alias_kw:" + r[1])
                col.evaluations += 1
                continue
            col.case(case, True, classes=("alias_kw",))
            if r[0] == "viol":
                col.violation(sig_of(tcls, "alias_kw", r[1], cls_name), case, r[2])
    for where in ("from", "join"):
        for mode in ("ctx", "par", "str"):
            case = {"family": "cte_ref_alias", "cls": cls_name, "where": where, "mode": mode}
            col.case(case, True, classes=("cte_ref_alias",))
            for sig, detail in check_cte_reference_alias(cls_name, where, mode):
                col.violation(sig, case, detail)
    # a user-declared function (CustomFunction is a factory, not a Term class): alias= of the call is what as_() gives
    import pypika_tortoise as P
    for mode in ("ctx", "par"):
        case = {"family": "customfn_alias", "cls": cls_name, "mode": mode}
        col.case(case, True, classes=("alias_kw",))
        for sig, detail in check_customfn_alias(cls_name, mode):
            col.violation(sig, case, detail)
    col.notes["uncovered"] = sorted(uncovered)
    col.notes["term_classes_discovered"] = "%d" % len(term_classes())
    col.exhaustive = True
    return col


def _sample_sql(tcls, cn, pos):
    try:
        env = prog.Env(cn, SRC)
        return render(statement(cn, pos, instance(tcls, env).as_(ALIAS)), cn)
    except Exception:
        return None
