"""C14 - Invalid constructions are rejected with library exceptions; valid ones never are.

(a) join programs over every source shape (plain, aliased, schema as str / list / Schema, temporal, subquery, CTE reference,
    update table, earlier join items) with criteria over fields of available and unavailable tables, in both operand orders,
    with same-named columns, wrapped in functions / arithmetic / unary minus / CASE / IN / BETWEEN, and with subquery operands.
    Oracle: an independent availability model over the program data -> JoinException at the join call iff a table is unavailable.
(b) set operations of arity 2..4 over select lists of length 1..3;  (c) CASE with 0..2 WHENs;  (d) conflict-handler call orders;
(e) RETURNING on select / insert / update / delete with own, foreign and aliased tables;  (f) one-shot calls made twice.
    Oracle: a table of expected exception types taken from the guards' own messages and the existing error tests.
"""
from __future__ import annotations

import itertools
import json

from hypothesis import HealthCheck, given, seed, settings, strategies as st

from pbt import prog
from pbt.core import Collector, HarnessError, mksig

ID = "C14"
RULE = ("(a) Hypothesis-generated join programs (source shapes x criteria shapes x operand orders) against an independent availability model; "
        "(b)-(f) enumerated completely: set-operation arities x select-list lengths, CASE with 0-2 WHENs, all orders of conflict-handler calls of length <= 4 on "
        "insert and non-insert builders, RETURNING argument kinds x statement kinds x table ownership, one-shot calls repeated. Non-trivial join case = the "
        "criterion mentions >= 2 tables and one of {alias, schema, temporal, CTE, function wrapper, name collision}; every enumerated case counts. Also enumerated: set operations as operands "
        "of set operations; RETURNING on statements with ON / USING joins and after a star, with fields, arithmetic, functions, comparisons, IS NULL, BETWEEN, IN, NOT, CASE, minus, tuples. Joins given no condition at all (on(None), on_field(), using()) over three source shapes.")
ASSUMPTIONS = [
    "available sources for a join criterion = FROM items, the update table, declared CTE names, earlier join items and the item being joined; fields inside a subquery operand belong to the subquery",
    "table identity is (name, schema path, alias); temporal clauses do not take part (documented Table.__eq__)",
    "expected exception types come from the guards themselves: JoinException, SetOperationException, CaseException, QueryException, AttributeError for one-shot guards",
]

CTXS = prog.CLS_NAMES
SUB = {"cls": "inherit", "sources": {}, "steps": [["from_", [["py", "t_q"]]], ["select", [["py", "a"], ["py", "b"]]]]}
POOL = {
    "A": ["tbl", "t_a", None, None], "B": ["tbl", "t_b", None, None], "C": ["tbl", "t_c", None, None], "D": ["tbl", "t_d", None, None],
    "AX": ["tbl", "t_a", None, "x"], "AY": ["tbl", "t_a", None, "y"], "BX": ["tbl", "t_b", None, "x"],
    "S1": ["tbl", "t_a", "s", None], "S2": ["tbl", "t_a", ["d", "s"], None], "S3": ["tbl", "t_a", ["schema", "s", None], None], "S4": ["tbl", "t_a", "s2", None],
    "TP": ["tbl", "t_a", None, None, {"for": ["between", ["systime"], ["raw", "2020-01-01"], ["raw", "2020-02-01"]]}],
    "Q": ["sub", SUB, None], "QA": ["sub", SUB, "qa"],
    "CT": ["cte", "cte1"], "CU": ["cte", "cte2"],
}
KEYS = tuple(POOL)


def ident(key):
    spec = POOL[key]
    if spec[0] == "tbl":
        sch = spec[2]
        if isinstance(sch, list) and sch and sch[0] == "schema":
            path = []
            cur = sch
            while cur is not None:
                path.insert(0, cur[1])
                cur = cur[2] if len(cur) > 2 else None
            sch = path
        path = tuple(sch) if isinstance(sch, list) else ((sch,) if sch else None)
        return ("tbl", spec[1], path, spec[3])
    if spec[0] == "cte":
        return ("cte", spec[1])
    return ("sub", key)


def fields_outside_subqueries(node, out):
    if isinstance(node, list):
        if node and node[0] in ("q", "subq"):
            return out
        if node and node[0] == "col" and len(node) >= 3 and node[1] in POOL:
            out.append(node[1])
            return out
        for x in node:
            fields_outside_subqueries(x, out)
    return out


# ---- (a) join programs --------------------------------------------------------------------------------------------


@st.composite
def join_case(draw):
    cls = draw(st.sampled_from(CTXS))
    base = draw(st.sampled_from(["select", "select", "select", "update", "delete"]))
    table_keys = [k for k in KEYS if POOL[k][0] == "tbl"]
    nfrom = 1 if base == "update" else draw(st.integers(1, 2))
    frm = draw(st.lists(st.sampled_from([k for k in KEYS if POOL[k][0] != "cte"]), min_size=nfrom, max_size=nfrom, unique=True))
    if base == "update":
        frm = [draw(st.sampled_from(table_keys))]
    ctes = draw(st.lists(st.sampled_from(["cte1", "cte2"]), max_size=2, unique=True))
    prejoin = draw(st.one_of(st.none(), st.sampled_from([k for k in KEYS if k not in frm])))
    item = draw(st.sampled_from([k for k in KEYS if k != prejoin and k not in frm] + [frm[0]] if POOL[frm[0]][0] == "tbl" else [k for k in KEYS if k != prejoin and k not in frm]))
    avail_keys = frm + ([prejoin] if prejoin else []) + [item]
    mode = draw(st.sampled_from(["on", "on", "on", "on", "on_field", "using", "cross"]))
    how = draw(st.sampled_from(["inner", "left", "right", "outer"]))

    def fld(keys):
        if draw(st.integers(0, 7)) == 0:
            # a column given without a table (Field("id")): it refers to no source, so it can never make a condition invalid
            return ["col", None, draw(st.sampled_from(["a", "b", "id"]))]
        return ["col", draw(st.sampled_from(keys)), draw(st.sampled_from(["a", "b", "id"]))]

    pool_for_crit = avail_keys + draw(st.lists(st.sampled_from(KEYS), max_size=2))

    def operand(depth):
        c = draw(st.integers(0, 9))
        f = fld(pool_for_crit)
        if depth <= 0 or c < 4:
            return f
        if c == 4:
            return ["neg", operand(depth - 1)]
        if c == 5:
            return ["fn", draw(st.sampled_from(["Coalesce", "Upper", "Sum"])), [operand(depth - 1)] + ([["raw", 0]] if False else [])] if True else f
        if c == 6:
            left = operand(depth - 1)
            if left[0] == "subq":
                left = fld(pool_for_crit)  # QueryBuilder overloads + - * as set operations: a subquery is never the left operand of arithmetic
            return [draw(st.sampled_from(["add", "sub", "mul"])), left, draw(st.one_of(st.just(["raw", 1]), st.just(fld(pool_for_crit))))]
        if c == 7:
            return ["case", [[["eq", fld(pool_for_crit), ["raw", 1]], operand(depth - 1)]], ["raw", 0]]
        if c == 8:
            return ["subq", {"cls": "inherit", "sources": {}, "steps": [["from_", [["src", draw(st.sampled_from(["D", "C"]))]]], ["select", [["col", "D", "a"]]], ["where", [["eq", ["col", "D", "b"], fld(list(KEYS))]]]]}]
        return ["cfn", "F", [operand(depth - 1), fld(pool_for_crit)]]

    def crit(depth):
        c = draw(st.integers(0, 9))
        if depth > 0 and c >= 8:
            return [draw(st.sampled_from(["and", "or"])), crit(depth - 1), crit(depth - 1)]
        if c == 7:
            return ["in", operand(1), [["raw", 1], operand(0)]]
        if c == 6:
            return ["between", operand(1), operand(0), ["raw", 9]]
        if c == 5:
            return ["isnull", operand(1)]
        if c == 4:
            return ["not", crit(depth - 1)] if depth > 0 else ["isnull", operand(0)]
        l, r = operand(2), operand(2)
        if l[0] == "subq":
            l, r = r, l
        if l[0] == "subq":
            l = fld(pool_for_crit)
        return [draw(st.sampled_from(["eq", "ne", "gt", "le"])), l, r]

    c = crit(2) if mode == "on" else None
    return {"cls": cls, "base": base, "from": frm, "ctes": ctes, "prejoin": prejoin, "item": item, "mode": mode, "how": how, "crit": c}


def join_steps(case):
    steps = []
    for n in case["ctes"]:
        steps.append(["with_", [["q", SUB], ["py", n]]])
    if case["base"] == "update":
        steps.append(["update", [["src", case["from"][0]]]])
    else:
        for k in case["from"]:
            steps.append(["from_", [["src", k]]])
        if case["base"] == "delete":
            steps.append(["delete", []])
    if case["prejoin"]:
        steps.append(["join", [["src", case["prejoin"]], ["enum", "JoinType", "inner"]], {}, ["cross", []]])
    return steps


def expected_join(case):
    """-> True when a JoinException is expected"""
    if case["mode"] != "on":
        return False
    avail = {ident(k) for k in case["from"]} | {ident(case["item"])}
    if case["prejoin"]:
        avail.add(ident(case["prejoin"]))
    avail |= {("cte", n) for n in case["ctes"]}
    used = {ident(k) for k in fields_outside_subqueries(case["crit"], [])}
    return bool(used - avail)


def run_join(case):
    """-> ('raised', type name) | ('ok', sql) | ('harness', ...)"""
    env = prog.Env(case["cls"], POOL)
    q = prog.query_cls(case["cls"])
    try:
        for st_ in join_steps(case):
            q = prog.apply_step(q, st_, env)
    except Exception as e:
        return ("setup", type(e).__name__)
    j = q.join(env.src(case["item"]), getattr(prog.lib()[5].JoinType, case["how"]))
    try:
        if case["mode"] == "on":
            crit = prog.build_arg(case["crit"], env)
            res = j.on(crit)
        elif case["mode"] == "on_field":
            res = j.on_field("a", "b")
        elif case["mode"] == "using":
            res = j.using("a")
        else:
            res = j.cross()
    except Exception as e:
        return ("raised", type(e).__name__, str(e)[:120])
    return ("ok", res)


def join_features(case):
    keys = set(fields_outside_subqueries(case["crit"], [])) if case["crit"] else set()
    feats = set()
    for k in keys | set(case["from"]) | {case["item"]}:
        spec = POOL[k]
        if spec[0] == "tbl" and spec[3]:
            feats.add("alias")
        if spec[0] == "tbl" and spec[2]:
            feats.add("schema")
        if spec[0] == "tbl" and len(spec) > 4:
            feats.add("temporal")
        if spec[0] == "cte":
            feats.add("cte")
        if spec[0] == "sub":
            feats.add("subquery")
    txt = json.dumps(case["crit"])
    for f, n in (('"fn"', "function"), ('"neg"', "neg"), ('"case"', "case"), ('"subq"', "subquery_operand"), ('"cfn"', "function")):
        if f in txt:
            feats.add(n)
    return feats, keys


def distinguishing_feature(case, expected):
    feats, keys = join_features(case)
    for f in ("neg", "case", "function", "subquery_operand", "cte", "temporal", "schema", "alias", "subquery"):
        if f in feats:
            return f
    return "plain"


def check_join(case):
    exp = expected_join(case)
    r = run_join(case)
    if r[0] == "setup":
        return [("__setup__", r[1])]
    if r[0] == "raised":
        if r[1] == "JoinException":
            if not exp:
                return [(mksig("join", "false_rejection", distinguishing_feature(case, exp)), "valid join rejected: %s ; %s" % (r[2], json.dumps(case)[:300]))]
            return []
        return [(mksig("join", "wrong_type", r[1]), "join raised %s(%s) ; %s" % (r[1], r[2], json.dumps(case)[:300]))]
    if exp:
        return [(mksig("join", "missed", distinguishing_feature(case, exp)), "a criterion over an unavailable table was accepted: %s" % _sql(r[1], case["cls"]))]
    # a valid join must also render
    try:
        r[1].get_sql(prog.sql_context(case["cls"]))
    except prog.library_exceptions():
        pass
    except Exception as e:
        return [(mksig("join", "render_raises", type(e).__name__), "valid join does not render: %r" % (e,))]
    return []


def _sql(q, cls):
    try:
        return q.get_sql(prog.sql_context(cls))
    except Exception as e:
        return "EXC:" + type(e).__name__


# ---- (b)..(f) enumerations -----------------------------------------------------------------------------------------------


def outcome(f):
    try:
        r = f()
        return ("ok", r)
    except Exception as e:
        return ("raised", type(e).__name__)


def render_outcome(q, cls):
    try:
        return ("ok", q.get_sql(prog.sql_context(cls)))
    except Exception as e:
        return ("raised", type(e).__name__)


def enum_cases(cls):
    """yield (case dict, thunk -> list of (sig, detail))"""
    import pypika_tortoise as P
    from pypika_tortoise import analytics as an

    Q = prog.query_cls(cls)
    t, u = P.Table("t"), P.Table("u")

    # (b) set operations
    for arity in (2, 3, 4):
        for lens in itertools.product((1, 2, 3), repeat=arity):
            for op in ("union", "union_all", "intersect", "except_of", "minus"):
                if arity > 2 and op not in ("union", "intersect"):
                    continue

                def thunk(lens=lens, op=op):
                    qs = [Q.from_(t).select(*[t.field("c%d" % i) for i in range(n)]) for n in lens]
                    so = getattr(qs[0], op)(qs[1])
                    for extra in qs[2:]:
                        so = getattr(so, op)(extra)
                    r = render_outcome(so, cls)
                    valid = len(set(lens)) == 1
                    if valid and r[0] == "raised":
                        return [(mksig("setop", "false_rejection", r[1]), "%s over select lists %r raised %s" % (op, lens, r[1]))]
                    if not valid and (r[0] == "ok" or r[1] != "SetOperationException"):
                        return [(mksig("setop", "missed" if r[0] == "ok" else "wrong_type:" + r[1]), "%s over select lists of lengths %r gave %r" % (op, lens, r[1] if r[0] == "raised" else r[1][:120]))]
                    return []

                yield {"family": "setop", "cls": cls, "lens": list(lens), "op": op}, thunk

    # (b2) a set operation as operand of a set operation: (q0 op q1) op2 (q2 op q3), q0 op2 (q1 op q2)
    for shape in ("right_nested", "both_nested"):
        for lens in itertools.product((1, 2), repeat=4 if shape == "both_nested" else 3):
            for op in ("union", "intersect"):
                def thunk(lens=lens, op=op, shape=shape):
                    qs = [Q.from_(t).select(*[t.field("c%d" % i) for i in range(n)]) for n in lens]
                    try:
                        if shape == "right_nested":
                            so = getattr(qs[0], op)(getattr(qs[1], "union_all")(qs[2]))
                        else:
                            so = getattr(getattr(qs[0], "union_all")(qs[1]), op)(getattr(qs[2], "union_all")(qs[3]))
                    except Exception as e:
                        return [(mksig("setop_nested", "build_raises", type(e).__name__), "building %s of set operations raised %r" % (op, e))]
                    r = render_outcome(so, cls)
                    valid = len(set(lens)) == 1
                    if valid and r[0] == "raised":
                        return [(mksig("setop_nested", "false_rejection", r[1]), "%s with a set operation as operand (select lists %r, %s) raised %s" % (op, lens, shape, r[1]))]
                    if not valid and (r[0] == "ok" or r[1] != "SetOperationException"):
                        return [(mksig("setop_nested", "missed" if r[0] == "ok" else "wrong_type:" + r[1]), "%s with a set operation as operand over select lists %r (%s) gave %r" % (
                            op, lens, shape, r[1] if r[0] == "raised" else r[1][:160]))]
                    return []

                yield {"family": "setop_nested", "cls": cls, "lens": list(lens), "op": op, "shape": shape}, thunk

    # (c) CASE
    for n in (0, 1, 2):
        for with_else in (False, True):
            def thunk(n=n, with_else=with_else):
                c = P.Case()
                for i in range(n):
                    c = c.when(t.a == i, i)
                if with_else:
                    c = c.else_(9)
                r = render_outcome(Q.from_(t).select(c), cls)
                if n == 0 and (r[0] == "ok" or r[1] != "CaseException"):
                    return [(mksig("case", "missed" if r[0] == "ok" else "wrong_type:" + r[1]), "CASE without WHEN gave %r" % (r[1],))]
                if n > 0 and r[0] == "raised":
                    return [(mksig("case", "false_rejection", r[1]), "CASE with %d WHEN raised" % n)]
                return []

            yield {"family": "case", "cls": cls, "whens": n, "else": with_else}, thunk

    # (d) conflict handlers: all call sequences of length <= 4 over the handler calls
    calls = ["on_conflict", "on_conflict_id", "do_nothing", "do_update", "where"]
    for kind in ("insert", "select", "update"):
        for n in (1, 2, 3, 4):
            for seq in itertools.product(calls, repeat=n):
                if kind != "insert" and n > 2:
                    continue

                def thunk(kind=kind, seq=seq):
                    if kind == "insert":
                        q = Q.into(t).insert(1, 2)
                    elif kind == "select":
                        q = Q.from_(t).select(t.a)
                    else:
                        q = Q.update(t).set(t.a, 1)
                    # independent model of the documented guards
                    on_conflict = False
                    fields = False
                    nothing = False
                    updates = False
                    for i, c in enumerate(seq):
                        exp = None
                        if c in ("on_conflict", "on_conflict_id"):
                            if kind != "insert":
                                exp = "QueryException"
                        elif c == "do_nothing":
                            if updates:
                                exp = "QueryException"
                        elif c == "do_update":
                            if nothing:
                                exp = "QueryException"
                        elif c == "where" and on_conflict:
                            if nothing:
                                exp = "QueryException"
                            elif not fields:
                                exp = "QueryException"
                        f = {"on_conflict": lambda q=q: q.on_conflict(), "on_conflict_id": lambda q=q: q.on_conflict("id"), "do_nothing": lambda q=q: q.do_nothing(),
                             "do_update": lambda q=q: q.do_update("a", 5), "where": lambda q=q: q.where(t.b == 1)}[c]
                        r = outcome(f)
                        if exp is None and r[0] == "raised":
                            return [(mksig("conflict", "false_rejection", c, r[1]), "%s: call #%d %s of %r raised %s" % (kind, i + 1, c, seq, r[1]))]
                        if exp is not None and (r[0] == "ok" or r[1] != exp):
                            return [(mksig("conflict", "missed" if r[0] == "ok" else "wrong_type", c), "%s: call #%d %s of %r should raise %s, got %r" % (kind, i + 1, c, seq, exp, r[1] if r[0] == "raised" else "no exception"))]
                        if r[0] == "raised":
                            return []
                        q = r[1]
                        if c in ("on_conflict", "on_conflict_id"):
                            on_conflict = True
                            fields = fields or c == "on_conflict_id"
                        elif c == "do_nothing":
                            nothing = True
                        elif c == "do_update":
                            updates = True
                    r = render_outcome(q, cls)
                    if r[0] == "raised" and r[1] not in ("QueryException",):
                        return [(mksig("conflict", "render_wrong_type", r[1]), "%s %r renders with %s" % (kind, seq, r[1]))]
                    return []

                yield {"family": "conflict", "cls": cls, "kind": kind, "seq": list(seq)}, thunk

    # (e) RETURNING (PostgreSQL builder)
    if cls == "postgresql":
        args = {"own_field": lambda tt: tt.a, "str": lambda tt: "a", "star": lambda tt: "*", "const": lambda tt: 1, "arith_own": lambda tt: tt.a + 1,
                "foreign_field": lambda tt: u.a, "arith_foreign": lambda tt: u.a + 1, "function": lambda tt: __import__("pypika_tortoise.functions", fromlist=["Sum"]).Sum(tt.a), "null": lambda tt: None,
                # an ordinary (row-wise) function is as good a RETURNING item as an arithmetic expression; only aggregates have no place there
                "scalar_function_own": lambda tt: __import__("pypika_tortoise.functions", fromlist=["Lower"]).Lower(tt.a),
                "scalar_function_foreign": lambda tt: __import__("pypika_tortoise.functions", fromlist=["Lower"]).Lower(u.a),
                "custom_function_own": lambda tt: P.CustomFunction("f", ["x"])(tt.a),
                "function_over_aggregate": lambda tt: __import__("pypika_tortoise.functions", fromlist=["Coalesce"]).Coalesce(__import__("pypika_tortoise.functions", fromlist=["Sum"]).Sum(tt.a), 0),
                "arith_over_aggregate": lambda tt: __import__("pypika_tortoise.functions", fromlist=["Count"]).Count(tt.a) + 1,
                "case_over_aggregate": lambda tt: P.Case().when(__import__("pypika_tortoise.functions", fromlist=["Count"]).Count(tt.a) > 1, 1).else_(0),
                # an aggregate of a scalar subquery's own is that subquery's business
                "scalar_subquery_with_aggregate_own": lambda tt: Q.from_(P.Table("w")).select(__import__("pypika_tortoise.functions", fromlist=["Max"]).Max(P.Table("w").a)),
                "aliased_own": lambda tt: tt.a.as_("x"), "foreign_aliased_table": lambda tt: P.Table("t", alias="z").a,
                # terms that are neither a field, a string, an arithmetic expression nor a function
                "criterion_own": lambda tt: tt.a == 1, "criterion_foreign": lambda tt: u.a == 1, "isnull_foreign": lambda tt: u.a.isnull(),
                "between_foreign": lambda tt: tt.a.between(u.a, 5), "in_foreign": lambda tt: u.a.isin([1, 2]), "not_foreign": lambda tt: P.Not(u.a == 1),
                "case_own": lambda tt: P.Case().when(tt.a == 1, "one").else_("other"), "case_foreign": lambda tt: P.Case().when(u.a == 1, "one").else_("other"),
                "neg_foreign": lambda tt: -u.a, "tuple_foreign": lambda tt: P.Tuple(tt.a, u.a), "aliased_criterion_foreign": lambda tt: (u.a == 1).as_("f")}
        for stmt in ("select", "insert", "update", "delete", "update_join", "insert_aliased_own", "update_join_using", "insert_after_star", "update_after_star", "insert_select"):
            for an_, mk in args.items():
                def thunk(stmt=stmt, an_=an_, mk=mk):
                    tt = t
                    if stmt == "select":
                        q = Q.from_(t).select(t.a)
                    elif stmt == "insert":
                        q = Q.into(t).insert(1)
                    elif stmt == "insert_select":
                        q = Q.into(t).from_(u).select(u.a)  # u feeds the SELECT: RETURNING can only name the rows written to t
                    elif stmt == "update":
                        q = Q.update(t).set(t.a, 1)
                    elif stmt == "delete":
                        q = Q.from_(t).delete()
                    elif stmt == "update_join":
                        q = Q.update(t).join(u).on(t.a == u.a).set(t.a, 1)
                    elif stmt == "update_join_using":
                        q = Q.update(t).join(u).using("a").set(t.b, 1)
                    elif stmt == "insert_after_star":
                        q = Q.into(t).insert(1).returning("*")  # a star does not switch the guards off
                    elif stmt == "update_after_star":
                        q = Q.update(t).set(t.a, 1).returning("*")
                    else:
                        tt = P.Table("t", alias="o")
                        q = Q.into(tt).insert(1)
                    arg = mk(tt)
                    r = outcome(lambda: q.returning(arg))
                    foreign = (an_ in ("foreign_field", "arith_foreign", "foreign_aliased_table") or an_.endswith("_foreign")) and stmt not in ("update_join", "update_join_using")
                    if an_ == "foreign_aliased_table" and stmt in ("update_join", "update_join_using"):
                        foreign = True
                    exp = None
                    if stmt == "select":
                        exp = "QueryException"
                    elif an_ in ("function", "function_over_aggregate", "arith_over_aggregate", "case_over_aggregate"):
                        exp = "QueryException"
                    elif foreign:
                        exp = "QueryException"
                    if exp is None and r[0] == "raised":
                        return [(mksig("returning", "false_rejection", stmt, an_), "returning(%s) on %s raised %s" % (an_, stmt, r[1]))]
                    if exp is not None and (r[0] == "ok" or r[1] != exp):
                        got = r[1] if r[0] == "raised" else "SQL " + _sql(r[1], cls)[:120]
                        return [(mksig("returning", "missed" if r[0] == "ok" else "wrong_type", "non_dml" if stmt == "select" else "dml", (an_ + ("|on_insert_select" if stmt == "insert_select" else "")) if stmt != "select" else ("no_field" if an_ in ("const", "null", "star") else "field")),
                                 "returning(%s) on %s should raise %s, got %s" % (an_, stmt, exp, got))]
                    return []

                yield {"family": "returning", "cls": cls, "stmt": stmt, "arg": an_}, thunk

    # (f) one-shot calls repeated
    frame_fn = lambda: an.Sum(t.a).over(t.b)  # noqa: E731
    oneshots = {
        "into": (lambda: Q.into(t), lambda q: q.into(u)),
        "update": (lambda: Q.update(t), lambda q: q.update(u)),
        "delete": (lambda: Q.from_(t).delete(), lambda q: q.delete()),
        "delete_after_select": (lambda: Q.from_(t).select(t.a), lambda q: q.delete()),
        "update_after_select": (lambda: Q.from_(t).select(t.a), lambda q: q.update(u)),
        "create_table": (lambda: Q.create_table("x"), lambda q: q.create_table("y")),
        "drop_table": (lambda: Q.drop_table("x"), lambda q: q.drop_table("y")),
        "primary_key": (lambda: Q.create_table("x").columns("a").primary_key("a"), lambda q: q.primary_key("a")),
        "primary_key_after_empty_call": (lambda: Q.create_table("x").columns("a").primary_key(), lambda q: q.primary_key("a")),
        "for_": (lambda: t.for_(P.SYSTEM_TIME.between(1, 2)), lambda q: q.for_(P.SYSTEM_TIME.between(1, 2))),
        "for_portion": (lambda: t.for_portion(P.SYSTEM_TIME.from_to(1, 2)), lambda q: q.for_portion(P.SYSTEM_TIME.from_to(1, 2))),
        "for_after_portion": (lambda: t.for_portion(P.SYSTEM_TIME.from_to(1, 2)), lambda q: q.for_(P.SYSTEM_TIME.between(1, 2))),
        "rows": (lambda: frame_fn().rows(an.Preceding(1)), lambda q: q.rows(an.Preceding(2))),
        "range_after_rows": (lambda: frame_fn().rows(an.Preceding(1)), lambda q: q.range(an.Preceding(2))),
        "rollup_after_mysql_rollup": (lambda: Q.from_(t).select(t.a).groupby(t.a).rollup(vendor="mysql"), lambda q: q.rollup(t.b)),
        "columns_after_as_select": (lambda: Q.create_table("x").as_select(Q.from_(t).select(t.a)), lambda q: q.columns("a")),
        "as_select_after_columns": (lambda: Q.create_table("x").columns("a"), lambda q: q.as_select(Q.from_(t).select(t.a))),
        "as_select_twice": (lambda: Q.create_table("x").as_select(Q.from_(t).select(t.a)), lambda q: q.as_select(Q.from_(u).select(u.b))),
        "insert_without_into": (lambda: Q.from_(t), lambda q: q.insert(1)),
        # the MySQL LOAD DATA builder has the same one-shot calls (reached through MySQLQuery whatever the class under test)
        "load_into": (lambda: P.MySQLQuery.load("f").into("a"), lambda q: q.into("b")),
        "load_load": (lambda: P.MySQLQuery.load("f").into("a"), lambda q: q.load("g")),
        "columns_without_into": (lambda: Q.from_(t), lambda q: q.columns("a")),
    }
    # (g) a join that is given no condition at all is rejected at the call with the join exception (sources: table, subquery, aliased table)
    for src in ("table", "aliased", "subquery"):
        for how in ("on_none", "on_field_empty", "using_empty"):
            def thunk(src=src, how=how):
                item = {"table": lambda: u, "aliased": lambda: P.Table("u").as_("ua"), "subquery": lambda: Q.from_(u).select(u.a)}[src]()
                j = Q.from_(t).join(item)
                call = {"on_none": lambda: j.on(None), "on_field_empty": lambda: j.on_field(), "using_empty": lambda: j.using()}[how]
                r = outcome(call)
                if r[0] == "ok" or r[1] != "JoinException":
                    return [(mksig("join_without_condition", "missed" if r[0] == "ok" else "wrong_type:" + r[1], how), "join(%s).%s gave %r" % (src, how, r[1] if r[0] == "raised" else _sql(r[1], cls)[:100]))]
                return []

            yield {"family": "join_without_condition", "cls": cls, "src": src, "how": how}, thunk

    # (h) a condition that pairs a column of a source NOT in the statement with a same-named column given without a table
    #     (the two must not be taken for one when the condition's tables are collected)
    for foreign in ("subquery_unaliased", "subquery_aliased", "table"):
        for order in ("foreign_first", "tableless_first"):
            def thunk(foreign=foreign, order=order):
                other = {"subquery_unaliased": lambda: Q.from_("t_q").select("id", "b"), "subquery_aliased": lambda: Q.from_("t_q").select("id", "b").as_("fq"),
                         "table": lambda: P.Table("t_x")}[foreign]()
                crit = (other.id == P.Field("id")) if order == "foreign_first" else (P.Field("id") == other.id)
                r = outcome(lambda: Q.from_(t).join(u).on(crit))
                if r[0] == "ok" or r[1] != "JoinException":
                    return [(mksig("join_collision", "missed" if r[0] == "ok" else "wrong_type:" + r[1], foreign), "a condition naming a %s that is not in the statement, next to a same-named column without a table (%s), gave %r" % (
                        foreign, order, r[1] if r[0] == "raised" else _sql(r[1], cls)[:100]))]
                return []

            yield {"family": "join_collision", "cls": cls, "foreign": foreign, "order": order}, thunk

    for name, (first, second) in oneshots.items():
        def thunk(name=name, first=first, second=second):
            r1 = outcome(first)
            if r1[0] == "raised":
                return [(mksig("oneshot", "false_rejection", name, r1[1]), "the first %s call raised %s" % (name, r1[1]))]
            r2 = outcome(lambda: second(r1[1]))
            if r2[0] == "ok" or r2[1] != "AttributeError":
                return [(mksig("oneshot", "missed" if r2[0] == "ok" else "wrong_type:" + r2[1], name), "repeating / misplacing %s gave %r" % (name, r2[1] if r2[0] == "raised" else _sql(r2[1], cls)[:100]))]
            return []

        yield {"family": "oneshot", "cls": cls, "name": name}, thunk


def find_enum(case):
    for c, thunk in enum_cases(case["cls"]):
        if c == case:
            return thunk
    raise HarnessError("unknown enumerated case")


def check_case(case):
    if case.get("family"):
        return find_enum(case)()
    return [x for x in check_join(case) if x[0] != "__setup__"]


def valid_case(case):
    try:
        if case.get("family"):
            find_enum(case)
            return True
        return case["cls"] in CTXS and all(k in POOL for k in case["from"]) and case["item"] in POOL and (case["prejoin"] is None or case["prejoin"] in POOL) and \
            case["mode"] in ("on", "on_field", "using", "cross") and (case["mode"] != "on" or isinstance(case["crit"], list)) and len(case["from"]) >= 1 and \
            run_join(case)[0] != "setup" and _buildable(case)
    except (Exception, HarnessError):
        return False


def _buildable(case):
    if case["mode"] != "on":
        return True
    txt = json.dumps(case["crit"])
    if any(('["%s", ["subq"' % op) in txt for op in ("add", "sub", "mul", "eq", "ne")):
        return False
    try:
        prog.build_arg(case["crit"], prog.Env(case["cls"], POOL))
        return True
    except Exception:
        return False


def shards(tier, sd):
    out = [("enum", tier, c) for c in CTXS]
    n = 4 if tier == "quick" else 16
    out += [("join", tier, sd * 1000 + k) for k in range(n)]
    return out


def run_shard(shard):
    kind, tier, arg = shard
    col = Collector()
    if kind == "enum":
        for case, thunk in enum_cases(arg):
            col.case(case, True, classes=("family:" + case["family"],))
            for sig, detail in thunk():
                col.violation(sig, case, detail)
        col.exhaustive = True
        return col
    nex = 700 if tier == "quick" else 10000

    @seed(arg)
    @settings(max_examples=nex, database=None, deadline=None, suppress_health_check=list(HealthCheck), report_multiple_bugs=False)
    @given(join_case())
    def prop(case):
        res = check_join(case)
        if res and res[0][0] == "__setup__":
            col.count("setup_raised:" + res[0][1])
            return
        feats, keys = join_features(case)
        nt = len({ident(k) for k in keys}) >= 2 and bool(feats)
        col.case(case, nt, classes=("mode:" + case["mode"], "expected:" + ("reject" if expected_join(case) else "accept")) + tuple("feat:" + f for f in sorted(feats)))
        for sig, detail in res:
            col.violation(sig, case, detail)

    prop()
    return col
