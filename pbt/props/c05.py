"""C05 - Inlined values are single literal tokens that decode to the original value.

Domain   supported value kinds (adversarial strings over the full Unicode range, ints, finite floats, Decimals, bools, None,
         date/time/datetime, UUID, enum members, JSON-serialisable dict/list) x 19 value positions x six dialect classes.
Oracle   metamorphic + reference lexer: the statement rendered with the value and the statement rendered with a benign
         marker are the same token stream except at the marker, where there is exactly one literal (group) whose decoded
         value equals the original.  SQLite additionally evaluates the literal text with the engine.
"""
from __future__ import annotations

import datetime
import decimal
import enum
import json
import sqlite3
import uuid

from hypothesis import HealthCheck, given, seed, settings, strategies as st

from pbt import lex, prog
from pbt.core import Collector, HarnessError, mksig

ID = "C05"
RULE = ("value x position x dialect: values are strings from an adversarial alphabet (quotes, backslashes, comment openers, placeholder look-alikes, control "
        "characters, NUL, non-ASCII incl. astral) mixed with arbitrary Unicode text, ints, finite floats, Decimals, bools, None, dates/times/datetimes "
        "(tz-aware too), UUIDs, enum members and nested JSON values; 19 positions (select list, criteria, IN, BETWEEN, LIKE, HAVING, ON, INSERT/REPLACE rows, "
        "SET, function argument, CASE when/then/else, tuple, array, JSON term, column default, upsert update and upsert WHERE, LOAD DATA file name (MySQL), AT TIME ZONE zone); six classes. Non-trivial = the "
        "value has a special character class or a non-trivial text form (negative, exponent, tz-aware, nested JSON); distinct = distinct (value, position, class).")
ASSUMPTIONS = [
    "string-escape rules per dialect as implemented in pbt/lex.py (vendor lexical grammars); MySQL with default sql_mode (backslash escapes on, \" is a string delimiter)",
    "NaN/inf, bytes and lone surrogates are outside the supported kinds",
    "python's sqlite3 refuses SQL text containing NUL, so NUL cases are decided by the lexer oracle only",
    "MySQL time values lose their tzinfo by documented rule (MySQLValueWrapper)",
]

CTXS = prog.CLS_NAMES
MARK = "mk0"

POSITIONS = ["select_bare", "select_vw", "where_eq", "in_list", "between", "like", "having", "join_on", "insert_row", "replace_row", "set_value",
             "fn_arg", "case_when", "case_then", "case_else", "tuple_elem", "array_elem", "json_term", "column_default", "do_update", "upsert_where", "load_file", "at_time_zone",
             "agg_filter_arg", "analytic_arg", "json_contains", "joined_subquery"]
FAMILY = {"select_bare": "wrapper_cls", "set_value": "wrapper_cls", "select_vw": "explicit_vw",
          "json_term": "json_term", "json_contains": "json_term", "column_default": "column_default", "load_file": "load_file", "at_time_zone": "at_time_zone"}

T = ["src", "T"]
SRC = {"T": ["tbl", "t", None, None], "U": ["tbl", "u", None, None]}


def template(pos, H):
    """program steps with the hole filled by argument node H (a raw/pyv node)"""
    a = ["col", "T", "a"]
    base = [["from_", [T]]]
    if pos == "select_bare":
        return base + [["select", [H]]]
    if pos == "select_vw":
        return base + [["select", [["vw", H]]]]
    if pos == "where_eq":
        return base + [["select", [a]], ["where", [["eq", a, H]]]]
    if pos == "in_list":
        return base + [["select", [a]], ["where", [["in", a, [H, ["raw", 1]]]]]]
    if pos == "between":
        return base + [["select", [a]], ["where", [["between", a, H, ["raw", 9]]]]]
    if pos == "like":
        return base + [["select", [a]], ["where", [["like", a, H]]]]
    if pos == "having":
        return base + [["select", [a]], ["groupby", [a]], ["having", [["ne", a, H]]]]
    if pos == "join_on":
        return base + [["join", [["src", "U"], ["enum", "JoinType", "inner"]], {}, ["on", [["and", ["eq", a, ["col", "U", "a"]], ["eq", ["col", "U", "b"], H]]]]], ["select", [a]]]
    if pos == "insert_row":
        return [["into", [T]], ["insert", [["raw", 1], H]]]
    if pos == "replace_row":
        return [["into", [T]], ["replace", [H, ["raw", 2]]]]
    if pos == "set_value":
        return [["update", [T]], ["set", [["py", "a"], H]]]
    if pos == "fn_arg":
        return base + [["select", [["fn", "Coalesce", [a, H]]]]]
    if pos == "case_when":
        return base + [["select", [["case", [[["eq", a, H], ["raw", 1]]], ["raw", 2]]]]]
    if pos == "case_then":
        return base + [["select", [["case", [[["eq", a, ["raw", 1]], H]], ["raw", 2]]]]]
    if pos == "case_else":
        return base + [["select", [["case", [[["eq", a, ["raw", 1]], ["raw", 2]]], H]]]]
    if pos == "tuple_elem":
        return base + [["select", [a]], ["where", [["in", a, ["tuple", [H, ["raw", 3]]]]]]]
    if pos == "array_elem":
        return base + [["select", [["array", [["raw", 1], H]]]]]
    if pos == "json_term":
        return base + [["select", [["json_h", H]]]]
    if pos == "column_default":
        return [["create_table", [["py", "nt"]]], ["columns", [["column_h", H]]]]
    if pos == "at_time_zone":
        return base + [["select", [["attz_h", H]]]]  # a AT TIME ZONE '<zone>'
    if pos == "load_file":
        return [["load", [H]], ["into", [["py", "t"]]]]  # MySQL LOAD DATA LOCAL INFILE '<path>'
    if pos == "agg_filter_arg":
        # the argument of an aggregate that also has a FILTER: the function text is assembled in several steps
        return base + [["select", [["call", ["fn", "Max", [["fn", "Coalesce", [a, H]]]], "filter", [["lt", ["col", "T", "b"], ["raw", 3]]]]]]]
    if pos == "analytic_arg":
        return base + [["select", [["call", ["call", ["an", "Max", [["fn", "Coalesce", [a, H]]]], "over", [a]], "orderby", [["col", "T", "b"]]]]]]
    if pos == "json_contains":
        # the right operand of a JSON operator (wrap_json): a document, a key, a number
        return base + [["select", [a]], ["where", [["contains", a, H]]]]
    if pos == "joined_subquery":
        # inside a subquery that is the item of a JOIN .. ON
        sub = {"cls": "inherit", "sources": {}, "steps": [["from_", [["src", "U"]]], ["select", [["col", "U", "a"]]], ["where", [["eq", ["col", "U", "b"], H]]]]}
        return base + [["join", [["call", ["q", sub], "as_", [["py", "js"]]], ["enum", "JoinType", "inner"]], {}, ["on", [["eq", a, ["raw", 1]]]]], ["select", [a]]]
    if pos == "do_update":
        return [["into", [T]], ["insert", [["raw", 1], ["raw", 2]]], ["on_conflict", [["py", "id"]]], ["do_update", [["py", "a"], H]]]
    if pos == "upsert_where":
        return [["into", [T]], ["insert", [["raw", 1], ["raw", 2]]], ["on_conflict", [["py", "id"]]], ["do_update", [["py", "a"], ["raw", 5]]], ["where", [["eq", a, H]]]]
    raise HarnessError(pos)


def _json_h(node, env):
    import pypika_tortoise as P

    return P.JSON(prog.build_arg(node[1], env))


def _column_h(node, env):
    import pypika_tortoise as P

    return P.Column("c", "VARCHAR(9)", default=prog.build_arg(node[1], env))


prog.EXTRA_NODES["json_h"] = _json_h


def _attz_h(node, env):
    from pypika_tortoise.terms import AtTimezone, Field

    return AtTimezone(Field("a"), prog.build_arg(node[1], env))


prog.EXTRA_NODES["attz_h"] = _attz_h


def _patched_build_arg():
    # ["column_h", H] is an argument node, not an expression: route it through EXTRA_NODES as well
    prog.EXTRA_NODES["column_h"] = _column_h


_patched_build_arg()


class Color(enum.Enum):
    red = "r'd"
    num = 7


class IntE(enum.IntEnum):
    one = 1


class Ratio(float, enum.Enum):
    half = 1.5


# ---- values as data ------------------------------------------------------------------------------------------------
# value node := ["raw", json] | ["pyv", kind, text] | ["enumv", name]


def to_py(vnode):
    if vnode[0] == "raw":
        return vnode[1]
    if vnode[0] == "pyv":
        return prog.pyv(vnode[1], vnode[2])
    if vnode[0] == "enumdoc":
        # a JSON-serialisable document holding enum members that are numbers (json.dumps writes 1.5 and 1)
        return {"ratio": Ratio.half, "n": IntE.one, "l": [Ratio.half]}
    if vnode[0] == "enumv":
        return {"color_red": Color.red, "color_num": Color.num, "int_one": IntE.one}[vnode[1]]
    raise HarnessError(vnode)


prog.EXTRA_NODES["enumv"] = lambda node, env: to_py(node)
prog.EXTRA_NODES["enumdoc"] = lambda node, env: to_py(node)

SPECIAL = ["'", '"', "`", "\\", "--", "/*", "*/", "#", "?", "%s", "$1", ":x", "\n", "\r", "\t", "\0", "\x1a", "ü", "\U0001f600", "é", "ʼ", "＇", " ", ";", "%", "_", "''", "\\'", "\\\\",
           "{", "}", "{}", "{0}", "{filter_sql}", "{criterion}", "%(x)s", "%%"]  # text that str.format / % would rewrite


def str_values():
    alpha = st.sampled_from(SPECIAL + ["a", "b", "1", "x"])
    adversarial = st.lists(alpha, min_size=0, max_size=6).map("".join)
    general = st.text(alphabet=st.characters(blacklist_categories=("Cs",)), max_size=8)
    return st.one_of(adversarial, adversarial, general)


def json_values():
    leaf = st.one_of(st.none(), st.booleans(), st.integers(-5, 5), st.sampled_from([1.5, -0.25]), str_values())
    return st.recursive(leaf, lambda ch: st.one_of(st.lists(ch, max_size=3), st.dictionaries(str_values(), ch, max_size=3)), max_leaves=6).filter(lambda v: isinstance(v, (dict, list)))


def value_nodes():
    dt = st.datetimes(min_value=datetime.datetime(1, 1, 1), max_value=datetime.datetime(9999, 12, 31))
    tz = st.sampled_from([None, datetime.timezone.utc, datetime.timezone(datetime.timedelta(hours=-5, minutes=-30))])
    return st.one_of(
        str_values().map(lambda s: ["raw", s]),
        str_values().map(lambda s: ["raw", s]),
        st.integers(-10 ** 20, 10 ** 20).map(lambda v: ["raw", v]),
        st.floats(allow_nan=False, allow_infinity=False).map(lambda v: ["raw", v]),
        st.sampled_from([0.0, 1.0, -1.0, 2.0, 1e16, 1e-7]).map(lambda v: ["raw", v]),
        st.decimals(allow_nan=False, allow_infinity=False, places=None).map(lambda d: ["pyv", "decimal", str(d)]),
        st.booleans().map(lambda v: ["raw", v]),
        st.just(["raw", None]),
        st.dates().map(lambda d: ["pyv", "date", d.isoformat()]),
        st.tuples(dt, tz).map(lambda p: ["pyv", "datetime", p[0].replace(tzinfo=p[1]).isoformat()]),
        st.tuples(st.times(), tz).map(lambda p: ["pyv", "time", p[0].replace(tzinfo=p[1]).isoformat()]),
        st.uuids().map(lambda u: ["pyv", "uuid", str(u)]),
        st.sampled_from(["color_red", "color_num", "int_one"]).map(lambda n: ["enumv", n]),
        json_values().map(lambda v: ["raw", v]),
        st.just(["enumdoc"]),
        # JSON-serialisable documents a JSON file cannot carry as they are: non-str keys, tuples
        st.sampled_from(["{1: 'a'}", "{'ids': (1, 2)}", "{None: 1, True: 2}", "{'k': ('x', \"it's\")}", "[(1, 'a'), {2.5: None}]", "{7: {8: (9,)}}"]).map(lambda t: ["pyv", "literal", t]),
    )


def kind_of(v):
    if isinstance(v, enum.Enum):
        return "enum"
    if isinstance(v, bool):
        return "bool"
    if v is None:
        return "none"
    for t, n in ((str, "str"), (int, "int"), (float, "float"), (decimal.Decimal, "decimal"), (datetime.datetime, "datetime"), (datetime.date, "date"),
                 (datetime.time, "time"), (uuid.UUID, "uuid"), (dict, "json"), (list, "json")):
        if isinstance(v, t):
            return n
    raise HarnessError(type(v))


def applicable(pos, v, cls=None):
    k = kind_of(v)
    if pos == "at_time_zone":
        return k == "str"  # a zone is named by a string
    if pos == "load_file":
        return k == "str" and cls == "mysql" and v != ""  # only the MySQL class has the LOAD DATA builder; its file name is a non-empty str (without one the builder is incomplete)
    if pos == "select_bare" and k == "str":
        return False  # a bare str given to select() is a column name, not a value
    if pos == "like" and k != "str":
        return False
    if pos == "json_term":
        return k in ("json", "str")
    if pos == "json_contains":
        return k in ("json", "str")  # wrap_json: documents and keys (other values are turned into their text by contract)
    if k == "json" and isinstance(v, list) and pos not in ("json_term", "select_vw", "column_default"):
        return False  # a raw list/tuple is an Array/Tuple of values by contract, not one JSON value
    if k == "none" and pos in ("do_update",):
        return False  # do_update(field, None) means "use EXCLUDED"
    if pos == "column_default" and k == "none":
        return False
    return True


def escape_class(v, cls):
    txt = v if isinstance(v, str) else (json.dumps(v) if isinstance(v, (dict, list)) else str(v))
    raw_strings = []

    def walk(x):
        if isinstance(x, str):
            raw_strings.append(x)
        elif isinstance(x, dict):
            for k, y in x.items():
                walk(k)
                walk(y)
        elif isinstance(x, list):
            for y in x:
                walk(y)

    walk(v if not isinstance(v, enum.Enum) else v.value)
    allraw = "".join(raw_strings)
    if "\0" in allraw:
        return "nul"
    if "\\" in txt and cls == "mysql":
        return "backslash"
    if "'" in allraw:
        return "quote"
    if '"' in allraw and isinstance(v, (dict, list)):
        return "json_dquote"
    if "\\" in allraw and isinstance(v, (dict, list)):
        return "json_backslash"
    if any(ord(c) < 32 for c in allraw) and isinstance(v, (dict, list)):
        return "json_control"
    return "plain"


def special(v):
    k = kind_of(v)
    if k == "str":
        return any(s in v for s in SPECIAL if s not in (" ", "%", "_")) or any(ord(c) > 127 or ord(c) < 32 for c in v)
    if k in ("int", "float", "decimal"):
        return v < 0 or "e" in repr(v).lower()
    if k in ("datetime", "time"):
        return v.tzinfo is not None
    return k in ("json", "enum")


# ---- decoding -------------------------------------------------------------------------------------------------------


def expected_matches(v, group, cls, pos, engine_literals=True):
    """does the literal group (list of tokens) denote the python value v under dialect cls?
    engine_literals=False: only ask whether the tokens are the library's inline spelling of v (C04 aligns placeholders with it)"""
    if isinstance(v, enum.Enum):
        return expected_matches(v.value, group, cls, pos, engine_literals)
    if len(group) == 2 and group[0].kind == "op" and group[0].text == "-" and group[1].kind == "num":
        sign, tok = -1, group[1]
    elif len(group) == 1:
        sign, tok = 1, group[0]
    else:
        return False
    if "nul" in tok.flags:
        return False
    if isinstance(v, bool):
        if sign != 1:
            return False
        if tok.kind == "word":
            # T-SQL has no boolean literals: SELECT true reads "true" as a column name (bit values are written 1 / 0)
            return tok.value == ("TRUE" if v else "FALSE") and not (cls == "mssql" and engine_literals)
        return cls == "sqlite" and tok.kind == "num" and tok.text == ("1" if v else "0")
    if v is None:
        return tok.kind == "word" and tok.value == "NULL" and sign == 1
    if isinstance(v, int):
        return tok.kind == "num" and tok.text.isdigit() and sign * int(tok.text) == v
    if isinstance(v, float):
        try:
            # a float is a real literal (1.0, 1e+16): the integer token 1 is another value in SQL (1/2 is 0, 1.0/2 is 0.5)
            return tok.kind == "num" and sign * float(tok.text) == v and any(c in tok.text for c in ".eE")
        except ValueError:
            return False
    if isinstance(v, decimal.Decimal):
        try:
            d = decimal.Decimal(tok.text)
            return tok.kind == "num" and (d if sign == 1 else d.copy_negate()) == v
        except decimal.InvalidOperation:
            return False
    if sign != 1 or tok.kind != "str":
        return False
    if isinstance(v, str):
        return tok.value == v
    if isinstance(v, datetime.time) and cls == "mysql" and pos in ("select_bare", "set_value"):
        return tok.value in (v.replace(tzinfo=None).isoformat(), v.isoformat())
    if isinstance(v, (datetime.date, datetime.time)):
        return tok.value == v.isoformat()
    if isinstance(v, uuid.UUID):
        return tok.value == str(v)
    if isinstance(v, (dict, list)):
        try:
            return json.loads(tok.value) == json.loads(json.dumps(v))  # (non-str keys and tuples become what JSON makes of them)
        except ValueError:
            return False
    return False


_con = None


def sqlite_eval(text):
    global _con
    if _con is None:
        _con = sqlite3.connect(":memory:")
    return _con.execute("SELECT " + text).fetchone()[0]


def render(cls, pos, hole):
    p = {"cls": cls, "sources": SRC, "steps": template(pos, hole)}
    q = prog.build_program(p)
    ctx = prog.sql_context(cls)
    return q.get_sql(ctx)


def check_value(cls, pos, vnode):
    """-> list of (failure kind, detail)"""
    v = to_py(vnode)
    try:
        s_v = render(cls, pos, vnode)
        s_m = render(cls, pos, ["raw", MARK if pos != "select_bare" else 987654])
    except Exception as e:
        return [("raises:" + type(e).__name__, "%r at %s/%s: %r" % (v, cls, pos, e))]
    tv, tm = lex.lex(s_v, cls), lex.lex(s_m, cls)
    km, kv = [t.key for t in tm], [t.key for t in tv]
    try:
        i = km.index(("num", "987654") if pos == "select_bare" else ("str", MARK if pos != "json_term" else json.dumps(MARK)))
    except ValueError:
        # the dialect does not render this position at all (e.g. MySQL has no upsert WHERE): nothing is inlined
        return [("__not_rendered__", "")]
    rest = len(km) - i - 1
    if kv[:i] != km[:i] or (rest and kv[len(kv) - rest:] != km[i + 1:]) or len(kv) < i + rest:
        return [("structure_changed", "%r at %s/%s renders %r (marker form %r)" % (v, cls, pos, s_v, s_m))]
    group = tv[i:len(tv) - rest]
    if any(t.kind in ("comment", "bad", "param") for t in tv):
        return [("structure_changed", "%r at %s/%s renders %r: comment/placeholder/bad token" % (v, cls, pos, s_v))]
    if not group:
        return [("missing", "%r at %s/%s renders %r" % (v, cls, pos, s_v))]
    if pos == "json_term":
        ok = len(group) == 1 and group[0].kind == "str" and "nul" not in group[0].flags
        if ok:
            try:
                ok = json.loads(group[0].value) == json.loads(json.dumps(v))
            except ValueError:
                ok = False
        if not ok:
            return [("split" if len(group) > 1 else "decodes_differently", "JSON(%r) at %s renders %r: literal tokens %r" % (v, cls, s_v, [(t.kind, t.value) for t in group][:4]))]
        return []
    if not expected_matches(v, group, cls, pos):
        kind = "split" if len(group) > 2 or (len(group) == 2 and not (group[0].kind == "op" and group[0].text == "-")) else "decodes_differently"
        return [(kind, "%r at %s/%s renders %r: literal tokens %r" % (v, cls, pos, s_v, [(t.kind, t.value) for t in group][:4]))]
    if cls == "sqlite" and "\0" not in s_v and kind_of(v) in ("str", "int", "float", "bool", "none") and not (isinstance(v, int) and abs(v) >= 2 ** 63):
        text = s_v[group[0].pos:group[-1].pos + len(group[-1].text)]
        try:
            got = sqlite_eval(text)
            ok = (got == v) if not isinstance(v, bool) else (got == int(v))
            if isinstance(v, float):
                # SQLite's own text-to-double conversion is not always correctly rounded: tolerate 2 ulp-ish
                ok = got == v or (isinstance(got, float) and abs(got - v) <= 1e-15 * abs(v))
            if not ok:
                return [("engine_value", "%r at %s: SQLite reads %r as %r" % (v, pos, text, got))]
        except sqlite3.Error as e:
            return [("engine_reject", "%r: %s" % (text, e))]
    return []


def sig_of(cls, pos, v, kind):
    if escape_class(v, cls) == "nul" and kind in ("decodes_differently", "structure_changed", "split"):
        return mksig(cls, "nul_in_literal")
    return mksig(cls if (kind_of(v) in ("str", "json", "time", "bool") or kind.startswith("raises")) else "any", kind_of(v), FAMILY.get(pos, "wrap_constant"), escape_class(v, cls), kind)


def check_case(case):
    v = to_py(case["value"])
    if not applicable(case["pos"], v, case["cls"]):
        return []
    return [(sig_of(case["cls"], case["pos"], v, k), d) for k, d in check_value(case["cls"], case["pos"], case["value"]) if k != "__not_rendered__"]


def valid_case(case):
    try:
        to_py(case["value"])
        return case["cls"] in CTXS and case["pos"] in POSITIONS
    except (Exception, HarnessError):
        return False


def run_fuzz_shard(shard):
    """coverage-guided layer (Atheris): bytes -> structured case, the same oracle inside the target"""
    from pbt import fuzz

    _, tier, sd, k = shard
    col = Collector()
    seeds = [] if k % 2 == 0 else [bytes(range(1, 65)), b"\x02" * 40, b"\x07\x01\x09" * 20]
    found, runs, note = fuzz.campaign("c05", 40000, sd, seeds)
    col.evaluations += runs
    col.count("atheris_executions", runs)
    col.notes["atheris"] = [note + (" (empty corpus)" if not seeds else " (seeded corpus)")]
    for f in found:
        col.violation(f["sig"], f["case"], f["detail"])
    return col


def shards(tier, sd):
    n = 8 if tier == "quick" else 32
    out = [(tier, sd * 1000 + k) for k in range(n)]
    if tier == "thorough":
        out += [("fuzz", tier, sd * 1000 + 500 + k, k) for k in range(4)]
    return out


def run_shard(shard):
    if shard[0] == "fuzz":
        return run_fuzz_shard(shard)
    tier, sd = shard
    col = Collector()
    lex.selftest()
    nex = 1500 if tier == "quick" else 20000

    @seed(sd)
    @settings(max_examples=nex, database=None, deadline=None, suppress_health_check=list(HealthCheck), report_multiple_bugs=False)
    @given(value_nodes(), st.sampled_from(POSITIONS), st.sampled_from(CTXS))
    def prop(vnode, pos, cls):
        v = to_py(vnode)
        if pos == "load_file":
            cls = "mysql"
            if not isinstance(v, str):
                vnode = ["raw", str(v)]
                v = to_py(vnode)
        if not applicable(pos, v, cls):
            col.count("not_applicable")
            return
        case = {"cls": cls, "pos": pos, "value": vnode}
        sample = None
        if special(v) and len(col.samples) < col.MAX_SAMPLES:
            try:
                sample = dict(case, sql=render(cls, pos, vnode))
            except Exception:
                pass
        col.case(case, special(v), classes=("kind:" + kind_of(v), "pos:" + pos, "cls:" + cls, "esc:" + escape_class(v, cls)), sample=sample)
        for k, d in check_value(cls, pos, vnode):
            if k == "__not_rendered__":
                col.count("position_not_rendered:%s/%s" % (cls, pos))
                continue
            col.violation(sig_of(cls, pos, v, k), case, d)

    prop()
    return col
