"""Snapshots: what an object renders to (render_snapshot) and what it is made of (struct_snapshot)."""
from __future__ import annotations

import enum
import types

from pbt import prog

CTXS = prog.CLS_NAMES


def _try(f):
    try:
        return f()
    except RecursionError:
        return "EXC:RecursionError"
    except Exception as e:  # the exception type is the observable value
        return "EXC:" + type(e).__name__


def val_repr(v):
    """address-free repr of a parameter value (library objects print as <Class:sql>)"""
    if isinstance(v, (list, tuple)):
        return "[" + ",".join(val_repr(x) for x in v) + "]"
    if isinstance(v, dict):
        return "{" + ",".join("%s:%s" % (val_repr(k), val_repr(x)) for k, x in v.items()) + "}"
    if type(v).__module__.startswith("pypika_tortoise") and not isinstance(v, enum.Enum):
        return "<%s:%s>" % (type(v).__name__, _try(lambda: str(v)))
    return repr(v)


def render_snapshot(o, contexts=CTXS, meta=True) -> dict:
    from pypika_tortoise import Parameterizer

    out = {}
    if hasattr(type(o), "__str__") and type(o).__str__ is not object.__str__:
        out["str"] = _try(lambda: str(o))
    for name in contexts:
        ctx = prog.sql_context(name)
        out["sql:" + name] = _try(lambda: o.get_sql(ctx))

        def par():
            p = Parameterizer()
            s = o.get_sql(ctx.copy(parameterizer=p))
            return [s, [val_repr(v) for v in p.values]]

        out["par:" + name] = _try(par)
    if meta:
        if hasattr(o, "alias") or "alias" in getattr(o, "__dict__", {}):
            out["alias"] = _try(lambda: repr(o.__dict__.get("alias")))
        if "is_aggregate" in dir(type(o)):
            out["is_aggregate"] = _try(lambda: repr(o.is_aggregate))
        from pypika_tortoise.terms import Term

        if isinstance(o, Term):
            out["tables_"] = _try(lambda: sorted(str(t) for t in o.tables_))
            out["fields_"] = _try(lambda: sorted(str(f) for f in o.fields_()))
    return out


def diff_keys(a: dict, b: dict):
    return sorted(k for k in set(a) | set(b) if a.get(k) != b.get(k))


def struct_snapshot(o, _memo=None, _depth=0):
    """canonical, hashable-by-repr description of the object graph, independent of get_sql/nodes_"""
    if _memo is None:
        _memo = {}
    if o is None or isinstance(o, (bool, int, float, str, bytes)):
        return o
    if isinstance(o, enum.Enum):
        return "enum:%s.%s" % (type(o).__name__, o.name)
    if isinstance(o, type):
        return "class:" + o.__name__
    if isinstance(o, (types.FunctionType, types.MethodType, types.BuiltinFunctionType)):
        return "func:" + getattr(o, "__qualname__", repr(o))
    oid = id(o)
    if oid in _memo:
        return "ref:%d" % _memo[oid]
    if _depth > 60:
        return "deep"
    if isinstance(o, (list, tuple)):
        _memo[oid] = len(_memo)
        return [type(o).__name__] + [struct_snapshot(x, _memo, _depth + 1) for x in o]
    if isinstance(o, (set, frozenset)):
        _memo[oid] = len(_memo)
        items = [struct_snapshot(x, {}, _depth + 1) for x in o]
        return ["set"] + sorted(items, key=repr)
    if isinstance(o, dict):
        _memo[oid] = len(_memo)
        return ["dict"] + [[repr(k), struct_snapshot(v, _memo, _depth + 1)] for k, v in sorted(o.items(), key=lambda kv: repr(kv[0]))]
    d = getattr(o, "__dict__", None)
    if d is not None:
        _memo[oid] = len(_memo)
        return [type(o).__name__] + [[k, struct_snapshot(v, _memo, _depth + 1)] for k, v in sorted(d.items())]
    slots = getattr(type(o), "__dataclass_fields__", None)
    if slots:
        _memo[oid] = len(_memo)
        return [type(o).__name__] + [[k, struct_snapshot(getattr(o, k), _memo, _depth + 1)] for k in sorted(slots)]
    return "obj:" + type(o).__name__ + ":" + repr(o)


def struct_diff(a, b, path=""):
    """first differing path between two struct snapshots, or None"""
    if type(a) is not type(b):
        return path or "/"
    if isinstance(a, list):
        if len(a) != len(b):
            return path + "[len]"
        for i, (x, y) in enumerate(zip(a, b)):
            label = str(i)
            if isinstance(x, list) and len(x) == 2 and isinstance(x[0], str) and i > 0 and not isinstance(a[0], list):
                label = x[0]
                d = struct_diff(x[1], y[1] if isinstance(y, list) and len(y) == 2 else y, path + "." + label)
            else:
                d = struct_diff(x, y, path + "." + label)
            if d:
                return d
        return None
    return None if a == b else (path or "/")


def shared_mutables(a, b):
    """attribute paths of mutable containers (list/dict/set) reachable from both object graphs (identity)"""
    def walk(o, path, acc, seen, depth=0):
        if o is None or isinstance(o, (bool, int, float, str, bytes, enum.Enum, type, types.FunctionType)):
            return
        if id(o) in seen or depth > 40:
            return
        seen.add(id(o))
        if isinstance(o, (list, set, dict)):
            acc[id(o)] = path
        if isinstance(o, (list, tuple, set, frozenset)):
            for i, x in enumerate(o):
                walk(x, path + "[]", acc, seen, depth + 1)
        elif isinstance(o, dict):
            for k, v in o.items():
                walk(v, path + "." + str(k), acc, seen, depth + 1)
        else:
            d = getattr(o, "__dict__", None)
            if d is not None:
                for k, v in d.items():
                    walk(v, path + "." + k, acc, seen, depth + 1)

    A, B = {}, {}
    walk(a, "", A, set())
    walk(b, "", B, set())
    return sorted({A[i] for i in A if i in B})
