"""Reference lexers, one per dialect, written from the vendors' lexical grammars (oracle component).

Independent of the library: nothing here imports pypika_tortoise.  Each token has
``kind`` in {str, qid, num, word, op, punct, param, comment, bad}, the source ``text``, the
decoded ``value`` and the start offset ``pos``.

Dialect rules
  string literal   '...' with '' doubling everywhere; MySQL additionally backslash escapes
                   (\\0 \\' \\" \\b \\n \\r \\t \\Z \\\\ \\% \\_, any other \\x -> x) and "..." is a string too
  quoted ident     "..." with "" (all but MySQL); `...` with `` (MySQL; SQLite accepts it too)
  comments         -- to end of line (MySQL: only when followed by whitespace/control/end), /* ... */, MySQL #
  placeholders     ? (all but PostgreSQL, where ?, ?& and ?| are jsonb operators), %s (MySQL), $n (PostgreSQL), :name
  NUL              cannot be written inside a literal or identifier of SQLite/PostgreSQL: flagged ``nul``
"""
from __future__ import annotations

from typing import NamedTuple

DIALECTS = ("generic", "sqlite", "mysql", "postgresql", "mssql", "oracle")

OPS3 = ("->>", "#>>")
OPS2 = ("<>", "!=", ">=", "<=", "->", "#>", "@>", "<@", "||", "::", "?&", "?|", "==", "<<", ">>")
OPS1 = "=<>+-*/%&|^~@#!"
PUNCT = "(),.;[]{}:"

MYSQL_ESC = {"0": "\0", "'": "'", '"': '"', "b": "\b", "n": "\n", "r": "\r", "t": "\t", "Z": "\x1a", "\\": "\\",
             "%": "\\%", "_": "\\_"}


class Token(NamedTuple):
    kind: str
    text: str
    value: object
    pos: int
    flags: tuple = ()

    @property
    def key(self):
        return (self.kind, self.value)


def _is_word_start(c: str) -> bool:
    return c.isalpha() or c == "_" or (ord(c) >= 0x80 and not c.isspace())


def _is_word_char(c: str) -> bool:
    return c.isalnum() or c in "_$" or (ord(c) >= 0x80 and not c.isspace())


def lex(sql: str, dialect: str = "generic") -> list[Token]:
    assert dialect in DIALECTS, dialect
    my = dialect == "mysql"
    pg = dialect == "postgresql"
    out: list[Token] = []
    i, n = 0, len(sql)
    while i < n:
        c = sql[i]
        if c.isspace():
            i += 1
            continue
        # comments
        if c == "-" and sql.startswith("--", i):
            nxt = sql[i + 2] if i + 2 < n else ""
            if not my or nxt == "" or nxt.isspace() or ord(nxt) < 32:
                j = sql.find("\n", i)
                j = n if j < 0 else j
                out.append(Token("comment", sql[i:j], sql[i:j], i))
                i = j
                continue
        if c == "/" and sql.startswith("/*", i):
            j = sql.find("*/", i + 2)
            j = n if j < 0 else j + 2
            out.append(Token("comment", sql[i:j], sql[i:j], i))
            i = j
            continue
        if c == "#" and my:
            j = sql.find("\n", i)
            j = n if j < 0 else j
            out.append(Token("comment", sql[i:j], sql[i:j], i))
            i = j
            continue
        # string literals
        if c == "'" or (c == '"' and my):
            j = i + 1
            buf = []
            closed = False
            flags = []
            while j < n:
                d = sql[j]
                if d == c:
                    if j + 1 < n and sql[j + 1] == c:
                        buf.append(c)
                        j += 2
                        continue
                    closed = True
                    j += 1
                    break
                if d == "\\" and my:
                    if j + 1 < n:
                        e = sql[j + 1]
                        buf.append(MYSQL_ESC.get(e, e))
                        j += 2
                        continue
                    j += 1
                    break
                if d == "\0" and dialect in ("sqlite", "postgresql", "generic"):
                    flags.append("nul")
                buf.append(d)
                j += 1
            if not closed:
                out.append(Token("bad", sql[i:], "unterminated string", i))
                return out
            out.append(Token("str", sql[i:j], "".join(buf), i, tuple(flags)))
            i = j
            continue
        # quoted identifiers
        if (c == '"' and not my) or (c == "`" and dialect in ("mysql", "sqlite")):
            j = i + 1
            buf = []
            closed = False
            flags = []
            while j < n:
                d = sql[j]
                if d == c:
                    if j + 1 < n and sql[j + 1] == c:
                        buf.append(c)
                        j += 2
                        continue
                    closed = True
                    j += 1
                    break
                if d == "\0":
                    flags.append("nul")
                buf.append(d)
                j += 1
            if not closed:
                out.append(Token("bad", sql[i:], "unterminated identifier", i))
                return out
            out.append(Token("qid", sql[i:j], "".join(buf), i, tuple(flags) + (c,)))
            i = j
            continue
        # numbers
        if c.isdigit() or (c == "." and i + 1 < n and sql[i + 1].isdigit()):
            j = i
            while j < n and sql[j].isdigit():
                j += 1
            if j < n and sql[j] == ".":
                j += 1
                while j < n and sql[j].isdigit():
                    j += 1
            if j < n and sql[j] in "eE":
                k = j + 1
                if k < n and sql[k] in "+-":
                    k += 1
                if k < n and sql[k].isdigit():
                    while k < n and sql[k].isdigit():
                        k += 1
                    j = k
            out.append(Token("num", sql[i:j], sql[i:j], i))
            i = j
            continue
        # placeholders
        if c == "?" and not pg:
            out.append(Token("param", "?", "?", i))
            i += 1
            continue
        if c == "%" and my and sql.startswith("%s", i):
            out.append(Token("param", "%s", "%s", i))
            i += 2
            continue
        if c == "$" and i + 1 < n and sql[i + 1].isdigit():
            j = i + 1
            while j < n and sql[j].isdigit():
                j += 1
            out.append(Token("param", sql[i:j], sql[i:j], i))
            i = j
            continue
        if c == ":" and i + 1 < n and _is_word_start(sql[i + 1]) and not (i > 0 and sql[i - 1] == ":"):
            j = i + 1
            while j < n and _is_word_char(sql[j]):
                j += 1
            out.append(Token("param", sql[i:j], sql[i:j], i))
            i = j
            continue
        # words
        if _is_word_start(c):
            j = i + 1
            while j < n and _is_word_char(sql[j]):
                j += 1
            out.append(Token("word", sql[i:j], sql[i:j].upper(), i))
            i = j
            continue
        # operators, longest match
        if sql[i:i + 3] in OPS3:
            out.append(Token("op", sql[i:i + 3], sql[i:i + 3], i))
            i += 3
            continue
        if sql[i:i + 2] in OPS2 and not (sql[i:i + 2] in ("?&", "?|") and not pg):
            out.append(Token("op", sql[i:i + 2], sql[i:i + 2], i))
            i += 2
            continue
        if c in OPS1 or (c == "?" and pg):
            out.append(Token("op", c, c, i))
            i += 1
            continue
        if c in PUNCT:
            out.append(Token("punct", c, c, i))
            i += 1
            continue
        out.append(Token("bad", c, "stray %r" % c, i))
        i += 1
    return out


def keys(tokens):
    return [t.key for t in tokens]


# ---- the lexers' own encoders (used for self-tests and for writing reference SQL) ----------------------------


def enc_str(value: str, dialect: str) -> str:
    s = value.replace("'", "''")
    if dialect == "mysql":
        s = s.replace("\\", "\\\\")
    return "'" + s + "'"


def enc_ident(name: str, dialect: str) -> str:
    q = "`" if dialect == "mysql" else '"'
    return q + name.replace(q, q + q) + q


def balanced(tokens) -> bool:
    depth = []
    pairs = {")": "(", "]": "[", "}": "{"}
    for t in tokens:
        if t.kind == "punct" and t.text in "([{":
            depth.append(t.text)
        elif t.kind == "punct" and t.text in ")]}":
            if not depth or depth.pop() != pairs[t.text]:
                return False
    return not depth


def selftest() -> None:
    """Round trip of the lexer's own encoders and agreement with the SQLite engine. Raises on failure."""
    import sqlite3

    samples = ["", "a", "it's", "a''b", "back\\slash", "x\\'y", "--c", "/*c*/", "#h", "?", "%s", "$1", ":x", "\n\t\r",
               "\x1a", "ünï", "\U0001f600", '"', "`", "a\"b`c'd", "\\", "\\\\", "'", "''"]
    for d in DIALECTS:
        for s in samples:
            t = lex(enc_str(s, d), d)
            if len(t) != 1 or t[0].kind != "str" or t[0].value != (s if d != "mysql" else s):
                raise AssertionError("lexer string round trip failed: %r %s -> %r" % (s, d, t))
            if s:
                t = lex(enc_ident(s, d), d)
                if len(t) != 1 or t[0].kind != "qid" or t[0].value != s:
                    raise AssertionError("lexer ident round trip failed: %r %s -> %r" % (s, d, t))
    con = sqlite3.connect(":memory:")
    for s in samples:
        got = con.execute("SELECT " + enc_str(s, "sqlite")).fetchone()[0]
        if got != s:
            raise AssertionError("sqlite disagrees on string %r" % s)
        if s:
            cur = con.execute("SELECT 1 AS " + enc_ident(s, "sqlite"))
            if cur.description[0][0] != s:
                raise AssertionError("sqlite disagrees on ident %r" % s)
    con.close()
