"""Runner: ./check <ID> quick|thorough [--replay FILE]

exit 0  property held on everything explored (KNOWN-FINDING lines allowed)
exit 1  at least one "VIOLATION property=<id> replay=<path>" line
exit 2  harness error (never prints a VIOLATION line)
"""
from __future__ import annotations

import importlib
import multiprocessing as mp
import os
import sys
import time
import traceback

sys.path.insert(0, os.path.dirname(os.path.dirname(os.path.abspath(__file__))))

from pbt import core  # noqa: E402


def _load(pid: str):
    core.setup_repo_path()
    return importlib.import_module("pbt.props." + pid.lower())


def _run_shard(args):
    pid, shard = args
    mod = _load(pid)
    try:
        col = mod.run_shard(shard)
    except BaseException:
        return ("error", traceback.format_exc())
    return ("ok", col)


def _sigs(mod, case):
    return [s for s, _ in mod.check_case(case)]


def main(argv) -> int:
    if len(argv) < 2:
        print("usage: check <ID> quick|thorough [--replay FILE]", file=sys.stderr)
        return 2
    pid = argv[0].upper()
    tier = argv[1]
    replay = None
    if "--replay" in argv:
        replay = argv[argv.index("--replay") + 1]
    if tier not in ("quick", "thorough", "replay"):
        print("tier must be quick or thorough", file=sys.stderr)
        return 2
    seed = int(os.environ.get("VERIF_SEED", "1") or "1")
    t0 = time.time()
    mod = _load(pid)
    known = core.Known(pid)

    if replay is not None:
        rec = core.load_replay(replay)
        found = mod.check_case(rec["case"])
        want = rec.get("signature")
        rc = 0
        for sig, detail in found:
            if sig in known.open and sig != want:
                continue
            if sig in known.open:
                print("KNOWN-FINDING: property=%s %s" % (pid, known.open[sig]["what"]))
                continue
            print("VIOLATION property=%s replay=%s" % (pid, replay))
            print("  signature: %s\n  detail: %s" % (sig, detail))
            rc = 1
        if not found:
            print("replay %s: no violation reproduced" % replay)
        return rc

    nviol = 0
    stale = []
    printed_known = set()
    # 1. replay the stored case of every open finding
    for sig, ent in known.open.items():
        if ent.get("replay"):
            try:
                rec = core.load_replay(ent["replay"])
                sigs = _sigs(mod, rec["case"])
            except FileNotFoundError:
                sigs = []
            if sig in sigs:
                print("KNOWN-FINDING: property=%s %s [sig=%s]" % (pid, ent["what"], sig))
                printed_known.add(sig)
            else:
                stale.append(sig)
    # 2. regression: replay files of fixed findings must stay green
    regress = 0
    for ent in known.fixed:
        if ent.get("replay"):
            rec = core.load_replay(ent["replay"])
            regress += 1
            for sig, detail in mod.check_case(rec["case"]):
                if sig in known.open:
                    continue
                print("VIOLATION property=%s replay=%s" % (pid, ent["replay"]))
                print("  signature: %s (regression of a fixed finding)\n  detail: %s" % (sig, detail))
                nviol += 1
                break

    # 3. search
    shards = mod.shards(tier, seed)
    total = core.Collector()
    nproc = min(len(shards), int(os.environ.get("VERIF_JOBS", "16")))
    if nproc <= 1:
        results = [_run_shard((pid, s)) for s in shards]
    else:
        ctx = mp.get_context("fork")
        with ctx.Pool(nproc) as pool:
            results = pool.map(_run_shard, [(pid, s) for s in shards], chunksize=1)
    for status, payload in results:
        if status == "error":
            print("HARNESS ERROR in shard:\n" + payload, file=sys.stderr)
            return 2
        total.merge(payload)

    # 4. triage signatures
    budget = 150 if tier == "quick" else 600
    for sig in sorted(total.viol):
        size, case, detail = total.viol[sig]
        if sig in known.open:
            total.excluded_known[sig] += total.viol_count[sig]
            if sig not in printed_known:
                print("KNOWN-FINDING: property=%s %s [sig=%s]" % (pid, known.open[sig]["what"], sig))
                printed_known.add(sig)
                if sig in stale:
                    stale.remove(sig)
            continue
        try:
            valid = getattr(mod, "valid_case", lambda c: True)
            small = core.shrink(case, lambda c, sig=sig: valid(c) and sig in _sigs(mod, c), budget=budget)
            for s2, d2 in mod.check_case(small):
                if s2 == sig:
                    detail = d2
        except (Exception, core.HarnessError):
            small = case
        path = core.write_replay(pid, sig, small, detail)
        print("VIOLATION property=%s replay=%s" % (pid, path))
        print("  signature: %s\n  detail: %s" % (sig, detail))
        nviol += 1

    extra = {"stale_known": stale, "fixed_regressions_replayed": regress, "shards": len(shards)}
    core.write_evidence(pid, tier, seed, total, mod.RULE, mod.ASSUMPTIONS, time.time() - t0, nviol, extra)
    print("%s %s seed=%d: evaluations=%d distinct_nontrivial=%d violations=%d known=%d wall=%.1fs" % (
        pid, tier, seed, total.evaluations, len(total.nontrivial), nviol, len(printed_known), time.time() - t0))
    return 1 if nviol else 0


if __name__ == "__main__":
    try:
        rc = main(sys.argv[1:])
    except SystemExit:
        raise
    except BaseException:
        traceback.print_exc()
        rc = 2
    sys.exit(rc)
