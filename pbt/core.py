"""Common machinery: collector, signatures, known findings, evidence, replay files, JSON shrinker.

A property module never raises on a violation; it records ``(signature, case, detail)`` in a
Collector and keeps searching, so that one shallow defect does not hide what lies behind it.
"""
from __future__ import annotations

import hashlib
import json
import os
import sys
import time
from collections import Counter

VERIF_DIR = os.path.dirname(os.path.dirname(os.path.abspath(__file__)))
REPO_DIR = os.environ.get("VERIF_REPO_DIR", "/repo")
KNOWN_FILE = os.path.join(VERIF_DIR, "KNOWN_FINDINGS.txt")


class HarnessError(BaseException):
    """Raised for bugs of the harness itself (exit code 2, never a VIOLATION).
    Derives from BaseException so that the broad ``except Exception`` handlers which turn library
    exceptions into observable values can never swallow it."""


def canon(obj) -> str:
    return json.dumps(obj, sort_keys=True, separators=(",", ":"), ensure_ascii=True, default=repr)


def chash(obj) -> str:
    return hashlib.sha1(canon(obj).encode()).hexdigest()[:16]


def mksig(*parts) -> str:
    out = []
    for p in parts:
        s = str(p)
        s = s.replace(" ", "_").replace("\n", "\\n")
        out.append(s)
    return "|".join(out)


class Collector:
    """Accumulates what a run covered and every violation signature it met (picklable)."""

    MAX_SAMPLES = 8

    def __init__(self) -> None:
        self.evaluations = 0
        self.nontrivial: set[str] = set()
        self.samples: list = []
        self.hist: Counter = Counter()
        self.viol: dict[str, tuple] = {}  # sig -> (size, case, detail)
        self.viol_count: Counter = Counter()
        self.excluded_known: Counter = Counter()
        self.notes: dict = {}
        self.exhaustive = None

    # -- coverage ---------------------------------------------------------------------------
    def case(self, case, nontrivial: bool, classes=(), sample=None) -> None:
        self.evaluations += 1
        if nontrivial:
            h = chash(case)
            if h not in self.nontrivial:
                self.nontrivial.add(h)
                if len(self.samples) < self.MAX_SAMPLES and (len(self.nontrivial) % 7 == 1):
                    self.samples.append(sample if sample is not None else case)
        for c in classes:
            self.hist[c] += 1

    def count(self, cls: str, n: int = 1) -> None:
        self.hist[cls] += n

    # -- violations -------------------------------------------------------------------------
    def violation(self, sig: str, case, detail: str = "") -> None:
        self.viol_count[sig] += 1
        size = len(canon(case))
        cur = self.viol.get(sig)
        if cur is None or size < cur[0]:
            self.viol[sig] = (size, case, detail)

    def merge(self, other: "Collector") -> None:
        self.evaluations += other.evaluations
        self.nontrivial |= other.nontrivial
        for s in other.samples:
            if len(self.samples) < self.MAX_SAMPLES:
                self.samples.append(s)
        self.hist.update(other.hist)
        self.viol_count.update(other.viol_count)
        self.excluded_known.update(other.excluded_known)
        for sig, v in other.viol.items():
            cur = self.viol.get(sig)
            if cur is None or v[0] < cur[0]:
                self.viol[sig] = v
        for k, v in other.notes.items():
            if isinstance(v, list):
                cur = self.notes.setdefault(k, [])
                for x in v:
                    if x not in cur:
                        cur.append(x)
            elif isinstance(v, (int, float)) and not isinstance(v, bool):
                self.notes[k] = self.notes.get(k, 0) + v
            else:
                self.notes.setdefault(k, v)
        if other.exhaustive is not None:
            self.exhaustive = other.exhaustive if self.exhaustive is None else (self.exhaustive and other.exhaustive)


# ------------------------------------------------------------------------------------------------
# known findings


class Known:
    def __init__(self, pid: str) -> None:
        self.open: dict[str, dict] = {}  # sig -> entry
        self.fixed: list[dict] = []
        if not os.path.exists(KNOWN_FILE):
            return
        for line in open(KNOWN_FILE, encoding="utf-8"):
            line = line.rstrip("\n")
            if not line or line.startswith("#"):
                continue
            if line.startswith("finding:"):
                head, _, what = line[len("finding:"):].partition("::")
                kv = dict(tok.split("=", 1) for tok in head.split() if "=" in tok)
                if kv.get("property") != pid:
                    continue
                self.open[kv["sig"]] = {"sig": kv["sig"], "replay": kv.get("replay"), "what": what.strip()}
            elif line.startswith("fixed:"):
                head, _, what = line[len("fixed:"):].partition("::")
                toks = head.split()
                kv = dict(tok.split("=", 1) for tok in toks if "=" in tok)
                if kv.get("property") != pid:
                    continue
                self.fixed.append({"sig": kv.get("sig"), "replay": kv.get("replay"), "what": what.strip() or head})


def load_replay(path: str) -> dict:
    if not os.path.isabs(path):
        path = os.path.join(VERIF_DIR, path)
    with open(path, encoding="utf-8") as f:
        return json.load(f)


def _out_root() -> str:
    """VERIF_OUT_DIR (measuring tools that run many checks against scratch trees at once) redirects what a run WRITES - evidence and
    new replay files - away from the checkout; what a run reads (known findings, committed replays) is always the checkout's."""
    return os.environ.get("VERIF_OUT_DIR") or VERIF_DIR


def write_replay(pid: str, sig: str, case, detail: str, prefix: str = "viol") -> str:
    d = os.path.join(_out_root(), "replays", pid)
    os.makedirs(d, exist_ok=True)
    path = os.path.join(d, "%s-%s.json" % (prefix, chash(sig)))
    with open(path, "w", encoding="utf-8") as f:
        json.dump({"property": pid, "signature": sig, "case": case, "detail": detail}, f, indent=1, ensure_ascii=True, default=repr)
        f.write("\n")
    return os.path.relpath(path, _out_root())


# ------------------------------------------------------------------------------------------------
# generic JSON shrinker (ddmin over lists + subtree hoisting + scalar simplification)


def _paths(node, path=()):
    yield path, node
    if isinstance(node, list):
        for i, c in enumerate(node):
            yield from _paths(c, path + (i,))
    elif isinstance(node, dict):
        for k in sorted(node):
            yield from _paths(node[k], path + (k,))


def _get(node, path):
    for p in path:
        node = node[p]
    return node


def _set(node, path, value):
    if not path:
        return value
    node = json.loads(json.dumps(node))
    cur = node
    for p in path[:-1]:
        cur = cur[p]
    cur[path[-1]] = value
    return node


def _delete(node, path):
    node = json.loads(json.dumps(node))
    cur = node
    for p in path[:-1]:
        cur = cur[p]
    del cur[path[-1]]
    return node


def shrink(case, still_fails, budget: int = 400):
    """Greedy structural shrinker over a JSON value.  ``still_fails(candidate) -> bool`` must return
    False for candidates that are ill-formed (it is expected to swallow harness errors)."""
    try:
        json.dumps(case)
    except TypeError:
        return case
    best = case
    spent = 0
    improved = True
    while improved and spent < budget:
        improved = False
        size = len(canon(best))
        cands = []
        for path, node in _paths(best):
            if path and isinstance(_get(best, path[:-1]), list):
                cands.append(("del", path))
            if isinstance(node, (list, dict)) and path:
                kids = node if isinstance(node, list) else list(node.values())
                for k in kids:
                    if isinstance(k, (list, dict)) and type(k) is type(node):
                        cands.append(("hoist", path, k))
            if isinstance(node, str) and len(node) > 1:
                cands.append(("set", path, node[: len(node) // 2]))
                cands.append(("set", path, node[len(node) // 2:]))
            if isinstance(node, int) and not isinstance(node, bool) and abs(node) > 1:
                cands.append(("set", path, node // 2))
        for c in cands:
            if spent >= budget:
                break
            try:
                if c[0] == "del":
                    cand = _delete(best, c[1])
                elif c[0] == "hoist":
                    cand = _set(best, c[1], c[2])
                else:
                    cand = _set(best, c[1], c[2])
            except (KeyError, IndexError, TypeError):
                continue
            if len(canon(cand)) >= size:
                continue
            spent += 1
            ok = False
            try:
                ok = bool(still_fails(cand))
            except (Exception, HarnessError):
                ok = False
            if ok:
                best = cand
                improved = True
                break
    return best


# ------------------------------------------------------------------------------------------------
# evidence


def write_evidence(pid, tier, seed, col: Collector, rule, assumptions, wall, nviol, extra=None) -> str:
    d = os.path.join(_out_root(), "evidence")
    os.makedirs(d, exist_ok=True)
    cov = {
        "evaluations": int(col.evaluations),
        "distinct_nontrivial": len(col.nontrivial),
        "rule": rule,
        "samples": col.samples[: Collector.MAX_SAMPLES],
        "classes": dict(sorted(col.hist.items())),
        "excluded_known": dict(col.excluded_known),
        "violation_signatures": {k: int(v) for k, v in sorted(col.viol_count.items())},
    }
    if col.exhaustive is not None:
        cov["exhaustive"] = bool(col.exhaustive)
    for k, v in col.notes.items():
        cov.setdefault(k, v)
    if extra:
        cov.update(extra)
    ev = {
        "property_id": pid,
        "tier": tier,
        "seed": int(seed),
        "level": "exploration",
        "coverage": cov,
        "assumptions": list(assumptions),
        "wall_s": round(wall, 3),
        "violations": int(nviol),
    }
    path = os.path.join(d, pid + ".json")
    tmp = path + ".tmp"
    with open(tmp, "w", encoding="utf-8") as f:
        json.dump(ev, f, indent=1, ensure_ascii=True, default=repr)
        f.write("\n")
    os.replace(tmp, path)
    return path


def setup_repo_path() -> str:
    """Put the repository working tree first on sys.path and make sure that is what gets imported."""
    repo = os.path.abspath(REPO_DIR)
    if repo in sys.path:
        sys.path.remove(repo)
    sys.path.insert(0, repo)
    sys.dont_write_bytecode = True
    import pypika_tortoise  # noqa

    f = os.path.abspath(pypika_tortoise.__file__)
    if not f.startswith(repo + os.sep):
        raise HarnessError("pypika_tortoise imported from %s, expected under %s" % (f, repo))
    return repo
